"""C15 - CFI evaluation implements the DWARF rules and fails cleanly."""

from __future__ import annotations

import ast
import copy as _copy
from typing import Dict, List, Optional, Tuple

from .. import tables
from ..astx import calls_in, f_show, linear, single_assign_value, src, walk_no_nested
from ..core import AnalysisError, Ctx, Repo, rule

EVAL = "dwarf.cfi_eval.evaluate_cfi_directives"


def dispatch_arms(repo: Repo) -> List[Tuple[str, ast.If]]:
    """[(test text, If node)] of the if/elif chain inside the directive loop."""
    fi = repo.func(EVAL)
    chain = None
    for n in ast.walk(fi.node):
        if isinstance(n, ast.If) and src(n.test) in ("name == '.cfi_startproc'",):
            chain = n
    if chain is None:
        raise AnalysisError("evaluate_cfi_directives: dispatch chain not found")
    # Arms of the dispatch, independent of how it is spelled: `if A: .. elif B: .. else: ..`, or
    # (after an arm that ends in raise/continue/return) the statements that follow the if.
    arms: List[Tuple[str, ast.If]] = []

    def parent_list(node):
        for p in ast.walk(fi.node):
            for f in ("body", "orelse", "finalbody"):
                b = getattr(p, f, None)
                if isinstance(b, list) and any(x is node for x in b):
                    return b
        return None

    def walk_list(stmts):
        for i, st in enumerate(stmts):
            if not isinstance(st, ast.If):
                if arms:
                    last = ast.If(test=ast.Constant(True), body=list(stmts[i:]), orelse=list(stmts[i:]))
                    ast.copy_location(last, st)
                    arms.append(("<else>", last))
                return
            arms.append((src(st.test), st))
            if st.orelse:
                walk_list(st.orelse)
                return
            if not (st.body and isinstance(st.body[-1], (ast.Raise, ast.Continue, ast.Return, ast.Break))):
                return
        return

    lst = parent_list(chain)
    walk_list(lst[lst.index(chain):] if lst is not None else [chain])
    return arms


class _Subst(ast.NodeTransformer):
    def __init__(self, m):
        self.m = m

    def visit_Name(self, n):
        if n.id in self.m:
            return ast.parse(self.m[n.id], mode="eval").body
        return n


def arm_effects(body: List[ast.stmt]):
    """-> (assignments [(target, value)], raises [(cond text, exc)], calls [text]) with unpacked names resolved to args[i]."""
    m: Dict[str, str] = {}
    assigns, raises, calls = [], [], []

    def norm(e: ast.AST) -> str:
        return src(_Subst(m).visit(_copy.deepcopy(e)))

    def walk(stmts, cond: List[str]):
        for st in stmts:
            if isinstance(st, ast.Assign) and isinstance(st.targets[0], ast.Tuple) and src(st.value) == "args":
                for i, e in enumerate(st.targets[0].elts):
                    if isinstance(e, ast.Name):
                        m[e.id] = f"args[{i}]"
            elif isinstance(st, ast.Assign) and isinstance(st.targets[0], ast.Name) and st.targets[0].id not in ("state",):
                m[st.targets[0].id] = "(" + norm(st.value) + ")"
            elif isinstance(st, ast.Assign):
                assigns.append((" & ".join(cond), norm(st.targets[0]), norm(st.value)))
            elif isinstance(st, ast.If):
                c = norm(st.test)
                walk(st.body, cond + [c])
                walk(st.orelse, cond + [f"not ({c})"])
            elif isinstance(st, ast.Raise):
                exc = src(st.exc.func) if isinstance(st.exc, ast.Call) else src(st.exc) if st.exc else "?"
                raises.append((" & ".join(cond), exc))
            elif isinstance(st, ast.Expr) and isinstance(st.value, ast.Call):
                calls.append((" & ".join(cond), norm(st.value)))
            elif isinstance(st, ast.For):
                walk(st.body, cond + [f"for {src(st.target)} in {norm(st.iter)}"])
            elif isinstance(st, ast.Pass):
                pass
            else:
                assigns.append((" & ".join(cond), "<stmt>", src(st)))

    walk(body, [])
    return assigns, raises, calls


CUR = "state.current"
RO = "isinstance(state.current.cfa, CFARegisterOffset)"
SPEC = {
    ".cfi_def_cfa": dict(assigns=[("", f"{CUR}.cfa", "CFARegisterOffset(args[0], args[1])")]),
    ".cfi_def_cfa_register": dict(pre=f"not {RO}", assigns=[("", f"{CUR}.cfa", f"CFARegisterOffset(args[0], {CUR}.cfa.offset)")]),
    ".cfi_def_cfa_offset": dict(pre=f"not {RO}", assigns=[("", f"{CUR}.cfa", f"CFARegisterOffset({CUR}.cfa.register, args[0])")]),
    ".cfi_adjust_cfa_offset": dict(pre=f"not {RO}", assigns=[("", f"{CUR}.cfa", f"CFARegisterOffset({CUR}.cfa.register, {CUR}.cfa.offset + args[0])")]),
    ".cfi_undefined": dict(assigns=[("", f"{CUR}.registers[args[0]]", "RegisterUndefined()")]),
    ".cfi_same_value": dict(assigns=[("", f"{CUR}.registers[args[0]]", "RegisterSameValue()")]),
    ".cfi_register": dict(assigns=[("", f"{CUR}.registers[args[0]]", "RegisterInRegister(args[1])")]),
    ".cfi_offset": dict(assigns=[("", f"{CUR}.registers[args[0]]", "RegisterOffset(args[1])")]),
    ".cfi_val_offset": dict(assigns=[("", f"{CUR}.registers[args[0]]", "RegValOffset(args[1])")]),
    ".cfi_restore": dict(
        assigns=[("args[0] in state.initial.registers", f"{CUR}.registers[args[0]]", "state.initial.registers[args[0]]")],
        calls=[("not (args[0] in state.initial.registers)", f"{CUR}.registers.pop(args[0], None)")],
    ),
    ".cfi_remember_state": dict(calls=[("", f"state.save_stack.append(copy({CUR}))")]),
    ".cfi_restore_state": dict(pre="not state.save_stack", assigns=[("", CUR, "state.save_stack.pop()")]),
    ".cfi_return_column": dict(assigns=[("", "state.return_column", "args[0]")]),
    ".cfi_endproc": dict(assigns=[("", "state", "None")]),
}
# the assembler-directive meaning of .cfi_rel_offset (GAS/LLVM): offset relative to the CFA register,
# i.e. Offset(N - cfa.offset). The code (pinned by tests/test_dwarf_cfi_eval.py) adds to an existing rule.
REL_OFFSET_SPEC = dict(pre=f"not {RO}", assigns=[("", f"{CUR}.registers[args[0]]", f"RegisterOffset(args[1] - {CUR}.cfa.offset)")])


@rule("C15.2", ["C15"], "each directive's transition matches the DWARF call-frame rule table", 17)
def c15_2(ctx: Ctx):
    repo = ctx.repo
    fi = repo.func(EVAL)
    arms = dispatch_arms(repo)
    by_name: Dict[str, ast.If] = {}
    for t, node in arms:
        if t.startswith("name == '.cfi_"):
            by_name[t[len("name == '"):-1]] = node
    # order: startproc first, then the `state is None` refusal, then everything else
    tests = [t for t, _ in arms]
    ok = len(tests) > 2 and tests[0] == "name == '.cfi_startproc'" and tests[1] == "state is None"
    ctx.check(ok, fi, arms[0][1], "the not-in-a-procedure refusal comes right after the startproc arm (before every other directive)",
              f"dispatch starts with {tests[:3]}: a directive (e.g. .cfi_endproc) outside a procedure would be accepted silently")
    if len(arms) > 1:
        a, r, c = arm_effects(arms[1][1].body)
        ctx.check(any(exc == "CFIStateError" for _, exc in r) and not a, fi, arms[1][1], "outside a procedure -> CFIStateError", "refusal changed")
    sp = by_name.get(".cfi_startproc")
    if sp is not None:
        a, r, c = arm_effects(sp.body)
        ctx.check(("state is not None", "CFIStateError") in r, fi, sp, "nested .cfi_startproc -> CFIStateError", f"raises: {r}")
        ok = any(t == "state" and v.replace(" ", "") == "ProcedureState(return_column=abi.default_dwarf_eh_return_column())" for _, t, v in a)
        ctx.check(ok, fi, sp, "startproc creates a fresh ProcedureState with the ABI's return column", f"assignments: {a}")
        ctx.check(any(t == "started_procedure" or (t == "<stmt>") for _, t, v in a) or "started_procedure = True" in src(sp), fi, sp, "startproc marks the row as the initial row", "started_procedure no longer set")
    for name, spec in sorted(SPEC.items()):
        node = by_name.get(name)
        if node is None:
            ctx.fail(fi, fi.node, f"arm for {name}", "the evaluator has no arm for this directive")
            continue
        a, r, c = arm_effects(node.body)
        want_a = spec.get("assigns", [])
        want_c = spec.get("calls", [])
        pre = spec.get("pre")
        ok_pre = pre is None or (pre, "CFIStateError") in r
        extra_r = [x for x in r if x[1] not in ("CFIStateError", "ValueError")]
        ok = sorted(a) == sorted(want_a) and sorted(c) == sorted(want_c) and ok_pre and not extra_r and (pre is not None or not r)
        ctx.check(ok, fi, node, f"transition {name}",
                  f"{name}: code does assigns={a} calls={c} raises={r}; the rule table says assigns={want_a} calls={want_c}"
                  + (f" after refusing `{pre}` with CFIStateError" if pre else ""), key=f"C15.2::{name}")
    # rel_offset: compare with the assembler-directive meaning
    node = by_name.get(".cfi_rel_offset")
    if node is not None:
        a, r, c = arm_effects(node.body)
        spec = REL_OFFSET_SPEC
        ok = sorted(a) == sorted(spec["assigns"]) and (spec["pre"], "CFIStateError") in r
        ctx.check(ok, fi, node, "transition .cfi_rel_offset",
                  f".cfi_rel_offset: code does assigns={a} raises={r}; as an assembler directive it means rule[r] := Offset(N - CFA offset) "
                  "(valid whenever the CFA is register+offset), not `existing offset + N`", key="C15.2::.cfi_rel_offset")
    # personality / lsda
    for name, field in ((".cfi_personality", "state.personality"), (".cfi_lsda", "state.lsda")):
        node = by_name.get(name)
        if node is None:
            ctx.fail(fi, fi.node, f"arm for {name}", "missing")
            continue
        a, r, c = arm_effects(node.body)
        omit = [x for x in a if x[1] == field and x[2] == "None" and "PointerEncodings.omit" in x[0] and not x[0].startswith("not")]
        enc = [x for x in a if x[1] == field and x[2].replace(" ", "") == "EncodedPointer(PointerEncodings(args[0]),_resolve_cfi_symbol(sym_or_uuid))" and x[0].startswith("not")]
        ctx.check(len(omit) == 1 and len(enc) == 1 and len(a) == 2, fi, node, f"transition {name}: omit -> None, else EncodedPointer(encoding, symbol)", f"assignments: {a}", key=f"C15.2::{name}")
    # escape
    node = by_name.get(".cfi_escape")
    if node is not None:
        a, r, c = arm_effects(node.body)
        want = {
            "isinstance(inst, cfi.InstDefCFAExpression)": (f"{CUR}.cfa", "CFAExpression(tuple(inst.expression))"),
            "isinstance(inst, cfi.InstExpression)": (f"{CUR}.registers[inst.register]", "RegisterAtExpression(tuple(inst.expression))"),
            "isinstance(inst, cfi.InstValExpression)": (f"{CUR}.registers[inst.register]", "RegisterIsExpression(tuple(inst.expression))"),
        }
        for cond, (t, v) in want.items():
            hit = [x for x in a if x[1] == t and x[2] == v and x[0].endswith(cond)]
            ctx.check(len(hit) == 1, fi, node, f"escape {cond.split('.')[-1][:-1]} -> {t} = {v}", f"assignments: {a}", key=f"C15.2::escape::{cond}")
        ctx.check(any(exc == "NotImplementedError" for _, exc in r), fi, node, "other escaped instructions are refused (NotImplementedError)", "unsupported escapes are silently ignored")
        loop = [n for n in ast.walk(node) if isinstance(n, ast.For)]
        ok = len(loop) == 1 and src(loop[0].iter).replace(" ", "") == "cfi.parse_cfi_instructions(bytes(args),abi.byteorder(),abi.pointer_size())"
        ctx.check(ok, fi, node, "escape bytes are parsed with the ABI's byte order and pointer size", "parse arguments changed")
    el = [n for t, n in arms if t == "<else>"]
    if el:
        last = el[0].orelse
        ctx.check(len(last) == 1 and isinstance(last[0], ast.Raise) and "NotImplementedError" in src(last[0]), fi, el[0], "unknown directives raise NotImplementedError", "unknown directives are ignored")


@rule("C15.1", ["C15"], "the evaluator can only raise CFIStateError/ValueError (NotImplementedError for unsupported input): no unguarded pop/subscript", 6)
def c15_1(ctx: Ctx):
    repo = ctx.repo
    fi = repo.func(EVAL)
    lin = linear(fi.node)
    allowed = {"CFIStateError", "ValueError", "NotImplementedError"}
    for n in ast.walk(fi.node):
        if isinstance(n, ast.Raise):
            exc = src(n.exc.func) if isinstance(n.exc, ast.Call) else (src(n.exc) if n.exc else "?")
            ctx.check(exc in allowed, fi, n, f"raise {exc}", f"`raise {exc}`: ill-formed CFI must surface as CFIStateError/ValueError", key=f"C15.1::raise::{exc}::{n.lineno - fi.node.lineno > 0 and ''}{sum(1 for m in ast.walk(fi.node) if isinstance(m, ast.Raise) and m.lineno < n.lineno)}")
    k = 0
    for n in ast.walk(fi.node):
        # dict.pop(key) without default
        if isinstance(n, ast.Call) and isinstance(n.func, ast.Attribute) and n.func.attr == "pop":
            recv = src(n.func.value)
            k += 1
            if len(n.args) == 1 and not n.keywords:
                g = lin.of(n)
                ok = lin.under(g, f"{src(n.args[0])} in {recv}")
                ctx.check(ok, fi, n, f"{recv}.pop({src(n.args[0])})",
                          f"`{src(n)}` raises KeyError when the key is absent (the guard tests a different mapping or nothing): "
                          "e.g. .cfi_restore of a register that has no rule", key=f"C15.1::pop::{recv}")
            elif len(n.args) == 0:
                g = lin.of(n)
                ok = lin.under(g, recv)
                ctx.check(ok, fi, n, f"{recv}.pop()", f"`{src(n)}` raises IndexError on an empty stack: must be guarded by a CFIStateError refusal", key=f"C15.1::pop0::{recv}")
            else:
                ctx.ok(fi, n, f"{src(n)} (has a default)")
        if isinstance(n, ast.Subscript) and isinstance(n.ctx, ast.Load) and src(n.value).endswith(".registers"):
            g = lin.of(n)
            recv = src(n.value)
            ok = lin.under(g, f"{src(n.slice)} in {recv}")
            k += 1
            ctx.check(ok, fi, n, f"{src(n)} (load)", f"`{src(n)}` raises KeyError unless `{src(n.slice)} in {recv}` was tested on the same mapping", key=f"C15.1::sub::{src(n)}")
    rs = repo.func("dwarf.cfi_eval._resolve_cfi_symbol")
    rr = [src(n.exc.func) for n in ast.walk(rs.node) if isinstance(n, ast.Raise) and isinstance(n.exc, ast.Call)]
    ctx.check(rr and all(x == "ValueError" for x in rr) and len(rr) == 2, rs, rs.node, "a missing CFI symbol is a ValueError", f"raises {rr}")
    ak = repo.func(EVAL + ".address_key")
    ctx.check("raise ValueError" in src(ak.node), ak, ak.node, "address-less blocks are a ValueError", "changed")


IMMUTABLE_FIELDS = {"return_column", "personality", "lsda", "cfa"}


@rule("C15.3", ["C15"], "copies of states share nothing mutable with the evaluation", 9)
def c15_3(ctx: Ctx):
    repo = ctx.repo
    for cname, fields in (("RowState", ["registers", "cfa"]), ("ProcedureState", ["return_column", "personality", "lsda", "current", "initial", "save_stack"])):
        c = repo.cls(f"dwarf.cfi_eval.{cname}")
        m = c.methods.get("__copy__")
        if m is None:
            ctx.fail(c.mod, c.node, f"{cname}.__copy__", "no __copy__: copy() would share registers/save_stack with the evaluator")
            continue
        rets = [n for n in walk_no_nested(m.node) if isinstance(n, ast.Return)]
        if len(rets) != 1 or not isinstance(rets[0].value, ast.Call):
            raise AnalysisError(f"{cname}.__copy__ shape")
        kws = {k.arg: k.value for k in rets[0].value.keywords}
        for f in fields:
            v = kws.get(f)
            if v is None:
                ctx.fail(m, rets[0], f"{cname}.__copy__: field {f}", "field is not passed to the copy (it gets the default, i.e. the copy forgets it)")
                continue
            t = src(v)
            refs = {src(n) for n in ast.walk(v) if isinstance(n, ast.Attribute) and isinstance(n.value, ast.Name) and n.value.id == "self"}
            ok_src = refs == {f"self.{f}"}
            if f in IMMUTABLE_FIELDS:
                ok = ok_src and t == f"self.{f}"
                why = "immutable value copied by reference"
            elif f == "save_stack":
                ok = ok_src and t.replace(" ", "") == "[copy(entry)forentryinself.save_stack]"
                why = "every saved row copied"
            else:
                ok = ok_src and t == f"copy(self.{f})"
                why = "copied"
            ctx.check(ok, m, v, f"{cname}.__copy__: {f} <- {why}",
                      f"`{f}={t}`: the copy's {f} must be an independent copy of self.{f} (it reads {sorted(refs) or 'nothing'})")
    fi = repo.func(EVAL)
    t = " ".join(src(fi.node).split())
    ctx.check("state.save_stack.append(copy(state.current))" in t, fi, fi.node, "remember_state saves a copy", "the live row object is pushed: later directives would edit the saved state")
    ctx.check("state.initial = copy(state.current)" in t, fi, fi.node, "the initial row is a copy", "initial aliases current: .cfi_restore would restore to the current rule")
    rs = repo.cls("dwarf.cfi_eval.RowState").methods["__init__"]
    ctx.check("self.registers = {}" in src(rs.node) and "self.registers.update(registers)" in src(rs.node), rs, rs.node, "RowState copies the registers mapping it is given", "RowState keeps the caller's mapping")


@rule("C15.4", ["C15"], "visiting order, per-offset latching of the initial row, one yield per directive location", 7)
def c15_4(ctx: Ctx):
    repo = ctx.repo
    fi = repo.func(EVAL)
    lin = linear(fi.node)
    loops = [g for g in lin.stmts if isinstance(g.node, ast.For)]
    bl = [g for g in loops if src(g.node.iter).replace(" ", "") == "sorted(blocks,key=address_key)"]
    ol = [g for g in loops if src(g.node.iter).replace(" ", "") == "sorted(block_directives.items())"]
    dl = [g for g in loops if src(g.node.iter) == "directives"]
    ctx.check(len(bl) == 1 and len(ol) == 1 and len(dl) == 1, fi, fi.node, "blocks by address, offsets ascending, directives in list order", "loop structure changed")
    if not (bl and ol and dl):
        return
    sp = [g for g in lin.stmts if isinstance(g.node, ast.Assign) and src(g.node.targets[0]) == "started_procedure" and src(g.node.value) == "False"]
    ok = len(sp) == 1 and sp[0].loops == (bl[0].node, ol[0].node)
    ctx.check(ok, fi, sp[0].node if sp else fi.node, "started_procedure is reset for every directive location (offset)",
              "started_procedure is reset per block (or never): every later location of the block re-latches the initial row, so .cfi_restore restores the current rule")
    ini = [g for g in lin.stmts if isinstance(g.node, ast.Assign) and src(g.node.targets[0]) == "state.initial"]
    ok = len(ini) == 1 and ini[0].loops == (bl[0].node, ol[0].node) and lin.under(ini[0], "state and started_procedure")
    ctx.check(ok, fi, ini[0].node if ini else fi.node, "the initial row is latched after the directives at the startproc location", "latching moved")
    ys = [g for g in lin.stmts if isinstance(g.node, ast.Expr) and isinstance(g.node.value, ast.Yield)]
    ok = len(ys) == 1 and ys[0].loops == (bl[0].node, ol[0].node) and src(ys[0].node.value.value).replace(" ", "") == "(block,block_offset,state)" and ys[0].nest == 2
    ctx.check(ok, fi, ys[0].node if ys else fi.node, "one (block, offset, state) is yielded per directive location, unconditionally", "yield moved/changed")
    if ini and ys:
        ctx.check(ini[0].index < ys[0].index, fi, ys[0].node, "initial row latched before the state is yielded", "order changed")
    st = [g for g in lin.stmts if isinstance(g.node, ast.AnnAssign) and src(g.node.target) == "state"]
    ctx.check(len(st) == 1 and not st[0].loops and src(st[0].node.value) == "None", fi, st[0].node if st else fi.node, "evaluation starts outside any procedure", "initial state changed")
    sk = [g for g in lin.stmts if isinstance(g.node, ast.Continue)]
    ctx.check(len(sk) == 1 and lin.under(sk[0], "block_directives is None"), fi, fi.node, "blocks without directives are skipped", "changed")


@rule("C15.5", ["C15", "C16"], "each ABI's byte order and pointer size agree with the assembler's target triple and register width", 10)
def c15_5(ctx: Ctx):
    repo = ctx.repo
    abis = repo.mod("abi").toplevel_assign("_ABIS")
    if not isinstance(abis, ast.Dict):
        raise AnalysisError("_ABIS is not a dict literal")
    tt = repo.func("utils._target_triple")
    arch: Dict[str, str] = {}
    for n in ast.walk(tt.node):
        if isinstance(n, ast.If) and isinstance(n.test, ast.Compare) and src(n.test.left) == "isa":
            isa = src(n.test.comparators[0]).split(".")[-1]
            for s in n.body:
                if isinstance(s, ast.Assign) and src(s.targets[0]) == "arch" and isinstance(s.value, ast.Constant):
                    arch[isa] = s.value.value
    for k, v in zip(abis.keys, abis.values):
        if not (isinstance(k, ast.Tuple) and isinstance(v, ast.Call)):
            raise AnalysisError("_ABIS entry shape")
        isa = src(k.elts[0]).split(".")[-1]
        cname = src(v.func)
        ci = repo.cls(f"abi.{cname}")
        a = arch.get(isa)
        if a is None or a not in tables.TRIPLE_ENDIAN:
            raise AnalysisError(f"no triple/endianness known for ISA {isa} ({a})")
        bo = repo.method(ci, "byteorder")
        rets = [n for n in walk_no_nested(bo.node) if isinstance(n, ast.Return)] if bo else []
        val = rets[0].value.value if len(rets) == 1 and isinstance(rets[0].value, ast.Constant) else None
        ctx.check(val == tables.TRIPLE_ENDIAN[a], bo or ci.mod, bo.node if bo else ci.node, f"{cname}.byteorder() == {tables.TRIPLE_ENDIAN[a]} (triple {a})",
                  f"{cname}.byteorder() returns {val!r} but code for {isa} is assembled for the {tables.TRIPLE_ENDIAN[a]}-endian triple `{a}`: "
                  "multi-byte operands in .cfi_escape are decoded with the wrong byte order", key=f"C15.5::bo::{cname}")
        ps = repo.method(ci, "pointer_size")
        rets = [n for n in walk_no_nested(ps.node) if isinstance(n, ast.Return)] if ps else []
        pval = rets[0].value.value if len(rets) == 1 and isinstance(rets[0].value, ast.Constant) else None
        ar = repo.method(ci, "all_registers")
        widths = set()
        if ar is not None:
            for c in calls_in(ar.node):
                if src(c.func) == "Register" and len(c.args) == 2 and isinstance(c.args[1], ast.Constant):
                    widths.add(int(c.args[1].value) // 8)
        ctx.check(pval in widths and len(widths) == 1 and pval == tables.POINTER_SIZE.get(cname), ps or ci.mod, ps.node if ps else ci.node,
                  f"{cname}.pointer_size() == register width == {tables.POINTER_SIZE.get(cname)}", f"pointer_size {pval}, register widths {sorted(widths)}", key=f"C15.5::ps::{cname}")
