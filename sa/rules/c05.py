"""C05 - output IR closed, well-formed, serializable, even on failure."""

from __future__ import annotations

import ast
from typing import Dict, List, Optional, Set, Tuple

from .. import aux
from ..astx import (
    FALSE,
    TRUE,
    GStmt,
    attr_path,
    calls_in,
    const_str,
    dump,
    f_show,
    implies,
    kwarg,
    linear,
    single_assign_value,
    src,
    walk_no_nested,
)
from ..core import AnalysisError, Ctx, FuncInfo, Repo, rule
from ..effects import CODE_KINDS, DATA_KINDS, expand_definitions, must_effect, site_guard
from ..resolve import callgraph
from .ret import check_site, m_fn, retirement_sites, shrink_sites

BLOCK_WORDS = ("CodeBlock", "DataBlock", "ByteBlock", "gtirb.Node", "gtirb.Offset")

# Tables that mention blocks/offsets but are deliberately not maintained by
# block removal: one named symbol, one line of reason each.
C051_EXCEPTIONS = {
    "pe_resource": "Offsets sit inside a list value and point into intervals; "
    "the library never maintains peResource (outside C04's table list)",
}


def block_tables(repo: Repo) -> Dict[str, aux.TableDef]:
    return {
        v: t
        for v, t in aux.table_defs(repo).items()
        if t.mentions(*BLOCK_WORDS)
    }


def kinds_for(t: aux.TableDef) -> Set[str]:
    k = t.py_type
    code = "CodeBlock" in k
    data = "DataBlock" in k
    if code and not data:
        return set(CODE_KINDS)
    if data and not code:
        return set(DATA_KINDS)
    return set()


def entry_removed_matcher(repo: Repo, table: str):
    """
    The entry of X in `table` is removed:
      del V[X] / V.pop(X..) / V.discard(X)          V bound from table.get()
      V2.discard(X), V2 = V.get(k)                  nested set value
      table.set(m, other) / table.remove(m)         scalar table, under `table.get(m) is X`
    """
    tdef = aux.table_defs(repo)[table]
    scalar = tdef.key_type is not None and not tdef.py_type.startswith(
        ("Dict", "Set", "List", "Tuple")
    )

    def m(fi: FuncInfo, g: GStmt, x: str) -> bool:
        uses = aux.table_uses(repo, fi)
        node = g.node
        cands: List[Tuple[str, ast.expr]] = []
        if isinstance(node, ast.Delete):
            for t in node.targets:
                if isinstance(t, ast.Subscript) and isinstance(t.value, ast.Name):
                    cands.append((t.value.id, t.slice))
        for c in linear(fi.node).stmt_calls(g):
            f = c.func
            if isinstance(f, ast.Attribute) and c.args:
                if f.attr in ("pop", "discard") and isinstance(f.value, ast.Name):
                    cands.append((f.value.id, c.args[0]))
            if scalar and isinstance(f, ast.Attribute) and f.attr in ("set", "remove"):
                ts = None
                for u in uses:
                    if u.call is c:
                        ts = u.tables
                if ts and table in ts:
                    # must be under `table.get(..) is X`
                    for a in _atoms_text(g.guard):
                        if a.endswith(f" is {x}") and ".get(" in a:
                            e = ast.parse(a, mode="eval").body
                            assert isinstance(e, ast.Compare)
                            tl = (
                                aux.table_of_expr(repo, fi.mod, e.left.func.value)
                                if isinstance(e.left, ast.Call)
                                and isinstance(e.left.func, ast.Attribute)
                                else None
                            )
                            if tl and table in tl:
                                return True
        for name, key in cands:
            if src(key) != x:
                continue
            ts = aux.tables_bound_at(repo, fi, name, g)
            if ts and table in ts:
                return True
        return False

    return m


def _atoms_text(f: tuple) -> List[str]:
    from ..astx import f_atoms

    return [a[0] for a in f_atoms(f) if isinstance(a, tuple) and isinstance(a[0], str)]


@rule(
    "C05.1",
    ["C05", "C04"],
    "every block-mentioning aux table is cleaned for a block before it leaves the module",
    14,
)
def c05_1(ctx: Ctx):
    repo = ctx.repo
    tables = block_tables(repo)
    omap = set(aux.offsetmap_tuple(repo))
    function_tables = {"function_blocks", "function_entries"}
    sites = retirement_sites(repo)
    rb = [s for s in sites if s[0].qual == "_modify.remove.remove_block"]
    jb = [s for s in sites if s[0].qual == "_modify.join.join_blocks"]
    if not rb or not jb:
        raise AnalysisError("retirement site in remove_block or join_blocks not found")

    # (a) remove_block: all block tables
    for fi, site, x in rb:
        for var, t in sorted(tables.items()):
            if var in C051_EXCEPTIONS:
                ctx.ok(fi, site.node, f"table {t.name}: exception", C051_EXCEPTIONS[var], nontrivial=False)
                continue
            if var == "cfi_directives":
                continue  # RET.cfi
            if var == "alignment":
                continue  # RET.aln
            kinds = kinds_for(t)
            if var in function_tables:
                check_site(ctx, f"C05.1[{t.name}]", fi, site, x, m_fn, CODE_KINDS,
                           f"{t.name}: remove_function_block_aux(cache, X)")
                continue
            check_site(
                ctx, f"C05.1[{t.name}]", fi, site, x,
                entry_removed_matcher(repo, var), kinds,
                f"entry of X in aux table {t.name} removed",
            )
    # (b) shrink sites (block kept empty): offset-keyed entries must go
    for fi, site, x in shrink_sites(repo):
        for var in sorted(omap):
            t = tables[var]
            check_site(
                ctx, f"C05.1[{t.name}]", fi, site, x,
                entry_removed_matcher(repo, var), set(),
                f"offset entries of X in {t.name} removed when X is emptied",
            )
    # (c) join_blocks: producer subset of consumer
    produced = tables_populated_for_new_blocks(repo)
    for fi, site, x in jb:
        for var in sorted(produced & set(tables)):
            t = tables[var]
            if var in ("cfi_directives", "alignment"):
                continue
            if var in C051_EXCEPTIONS:
                continue
            if var in function_tables:
                check_site(ctx, f"C05.1[{t.name}]", fi, site, x, m_fn, CODE_KINDS,
                           f"{t.name}: remove_function_block_aux(cache, X)")
                continue
            check_site(
                ctx, f"C05.1[{t.name}]", fi, site, x,
                entry_removed_matcher(repo, var), kinds_for(t),
                f"entry of X in aux table {t.name} (populated for patch blocks) removed",
            )


def tables_populated_for_new_blocks(repo: Repo) -> Set[str]:
    """Tables written by the code that creates blocks during a rewrite."""
    out: Set[str] = set()
    for q in (
        "_modify.edit.insert",
        "_modify.edit._add_other_section_contents",
        "_modify.split.split_block",
        "_modify.functions.add_function_block_aux",
    ):
        fi = repo.func(q)
        uses = aux.table_uses(repo, fi)
        bound = {u.bound: u.tables for u in uses if u.bound}
        for n in walk_no_nested(fi.node):
            name = None
            if isinstance(n, ast.Call) and isinstance(n.func, ast.Attribute):
                if n.func.attr in ("update", "add", "setdefault") and isinstance(
                    n.func.value, (ast.Name, ast.Subscript)
                ):
                    b = n.func.value
                    while isinstance(b, ast.Subscript):
                        b = b.value
                    if isinstance(b, ast.Name):
                        name = b.id
            elif isinstance(n, ast.Assign):
                for t in n.targets:
                    if isinstance(t, ast.Subscript):
                        b = t.value
                        while isinstance(b, ast.Subscript):
                            b = b.value
                        if isinstance(b, ast.Name):
                            name = b.id
            if name and name in bound:
                out.update(bound[name])
    return out


# ----------------------------------------------------------------------------


def _entry_tests(repo: Repo, fi: FuncInfo, x: str) -> Set[str]:
    """`<module>.entry_point is X` / `<table>.get(<module>) is X` -> names."""
    out: Set[str] = set()
    for n in walk_no_nested(fi.node):
        if (
            isinstance(n, ast.Compare)
            and len(n.ops) == 1
            and isinstance(n.ops[0], (ast.Is, ast.Eq))
            and x in (src(n.comparators[0]), src(n.left))
        ):
            l = n.left if src(n.comparators[0]) == x else n.comparators[0]
            p = attr_path(l)
            if p and p[-1] == "entry_point":
                out.add("entry_point")
            elif (
                isinstance(l, ast.Call)
                and isinstance(l.func, ast.Attribute)
                and l.func.attr == "get"
            ):
                ts = aux.table_of_expr(repo, fi.mod, l.func.value)
                if ts:
                    out.update(aux.gt_name(repo, t) for t in ts)
    return out


@rule("C05.2", ["C05", "C02"], "module entry tables: the keep-the-block guard and the updater consult the same set", 3)
def c05_2(ctx: Ctx):
    repo = ctx.repo
    guard = repo.func("_modify.remove._can_remove_block")
    upd = repo.func("_modify.remove._update_module_entrypoints")
    g = _entry_tests(repo, guard, "block")
    u = _entry_tests(repo, upd, "block")
    scalar_block_tables = {
        t.name
        for t in aux.table_defs(repo).values()
        if t.py_type in ("gtirb.CodeBlock", "gtirb.ByteBlock", "gtirb.DataBlock")
    }
    expected = scalar_block_tables | {"entry_point"}
    for name in sorted(expected | g | u):
        ctx.check(
            name in g and name in u,
            guard,
            guard.node,
            f"module entry `{name}` consulted by _can_remove_block and rewritten by _update_module_entrypoints",
            f"`{name}`: in guard={name in g}, in updater={name in u}; a block that is "
            f"the module's {name} and has no code successor would be removed and the "
            f"updater would assert / leave a dangling reference",
            key=f"C05.2::{name}",
        )


@rule("C05.2b", ["C05"], "no boolean operator has two identical operands (copy/paste slip)", 1)
def c05_2b(ctx: Ctx):
    n_ops = 0
    for mod in ctx.repo.mods.values():
        for n in ast.walk(mod.tree):
            if isinstance(n, ast.BoolOp):
                n_ops += 1
                seen = {}
                for v in n.values:
                    d = dump(v)
                    if d in seen and not any(isinstance(c, ast.Call) and False for c in ast.walk(v)):
                        ctx.fail(
                            mod,
                            n,
                            f"duplicate operand `{src(v)}`",
                            "the same operand appears twice in one and/or: one of them was meant to be something else",
                            key=f"{mod.name}::dup::{d[:80]}",
                        )
                    seen[d] = True
    ctx.ok(ctx.repo.mod("_modify.remove"), None, f"{n_ops} boolean operators scanned", nontrivial=False,
           key="C05.2b::scan")
    # positive fixture: the rule must be able to fire
    fx = ast.parse("a is b or a is b")
    b = fx.body[0].value  # type: ignore
    if dump(b.values[0]) != dump(b.values[1]):
        raise AnalysisError("C05.2b fixture did not match")


# ----------------------------------------------------------------------------


@rule("C05.3", ["C05", "C20", "C09", "C03", "C18", "C02"], "caches restore the caller's state on all exits", 6)
def c05_3(ctx: Ctx):
    repo = ctx.repo
    fi = repo.func("_modify.cache.make_return_cache")
    tries = [n for n in walk_no_nested(fi.node) if isinstance(n, ast.Try) and n.finalbody]
    ctx.check(len(tries) == 1, fi, fi.node, "one try/finally", f"found {len(tries)} try/finally blocks")
    if len(tries) == 1:
        t = tries[0]
        has_yield = any(
            isinstance(n, (ast.Yield, ast.YieldFrom))
            for st in t.body
            for n in walk_no_nested(st)
        )
        ctx.check(has_yield, fi, t, "yield is inside the try", "the yield is outside the try: an exception in the body skips the restore")
        # what is the cached CFG and the original?
        # pattern: old = ir.cfg ; cache = ReturnEdgeCache(old) ; ir.cfg = cache
        olds = [
            a.targets[0].id
            for a in walk_no_nested(fi.node)
            if isinstance(a, ast.Assign)
            and isinstance(a.targets[0], ast.Name)
            and src(a.value) == "ir.cfg"
        ]
        ctx.check(len(olds) == 1, fi, fi.node, "original CFG captured once", f"captures: {olds}")
        if len(olds) == 1:
            old = olds[0]
            cachev = [
                a.targets[0].id
                for a in walk_no_nested(fi.node)
                if isinstance(a, ast.Assign)
                and isinstance(a.targets[0], ast.Name)
                and isinstance(a.value, ast.Call)
                and src(a.value.func).endswith("ReturnEdgeCache")
                and a.value.args
                and src(a.value.args[0]) == old
            ]
            cache = cachev[0] if cachev else "?"
            fb = [src(s) for s in t.finalbody]
            want = [f"{old}.clear()", f"{old}.update({cache})", f"ir.cfg = {old}"]
            pos = []
            for w in want:
                pos.append(fb.index(w) if w in fb else -1)
            ctx.check(
                all(p >= 0 for p in pos) and pos == sorted(pos),
                fi,
                t,
                "finally: clear, update from cache, reinstall original CFG (in order)",
                f"finally body is {fb}; needs {want} in this order - otherwise the caller's CFG object loses edges or ir.cfg stays the cache",
            )
            # nothing conditional inside finally
            ctx.check(
                all(isinstance(s, (ast.Expr, ast.Assign)) for s in t.finalbody),
                fi,
                t,
                "finally body is unconditional",
                "restore statements are conditional",
            )
            raises = [
                n
                for st in t.body
                for n in walk_no_nested(st)
                if isinstance(n, ast.Raise)
            ]
            ctx.check(
                len(raises) >= 2 and all("CFGModifiedError" in src(r) for r in raises),
                fi,
                t,
                "both CFGModifiedError checks are inside the try (restore still runs)",
                f"{len(raises)} raises inside the try",
            )
            outside = [
                n
                for n in walk_no_nested(fi.node)
                if isinstance(n, ast.Raise) and not any(n is r for r in raises)
            ]
            ctx.check(not outside, fi, fi.node, "no raise outside the try after install", f"{len(outside)} raise(s) outside the try/finally")
    # ReferenceCache.__exit__
    ex = repo.func("_modify.cache.ReferenceCache.__exit__")
    lin = linear(ex.node)
    applies = [
        g for g, c in lin.all_calls() if src(c.func) == "self.apply"
    ]
    ctx.check(
        bool(applies) and all(g.top for g in applies),
        ex,
        ex.node,
        "__exit__ calls self.apply() unconditionally",
        "ReferenceCache.__exit__ does not always materialise referents: symbols stay without referent after an exception",
    )
    rets = [n for n in walk_no_nested(ex.node) if isinstance(n, ast.Return) and n.value is not None]
    ctx.check(
        all(isinstance(r.value, ast.Constant) and not r.value.value for r in rets),
        ex,
        ex.node,
        "__exit__ does not swallow exceptions",
        "__exit__ returns a truthy value and would swallow the patch's exception",
    )
    # nesting in make_modify_cache
    mm = repo.func("_modify.cache.make_modify_cache")
    withs = [n for n in walk_no_nested(mm.node) if isinstance(n, ast.With)]
    order = []
    for w in withs:
        for it in w.items:
            order.append(src(it.context_expr))
    ok = (
        len(order) >= 2
        and "make_return_cache" in order[0]
        and "ReferenceCache" in order[1]
    )
    inner_yield = False
    if withs:
        inner = withs[-1]
        inner_yield = any(isinstance(n, ast.Yield) for st in inner.body for n in walk_no_nested(st))
    ctx.check(
        ok and inner_yield,
        mm,
        mm.node,
        "reference cache nested inside the return cache, yield innermost",
        f"context managers: {order}; referents must be materialised (inner exit) before the CFG object is restored",
    )


# ----------------------------------------------------------------------------

NODE_SINKS = {
    "ProxyBlock": (("proxies", "add"), ("proxies", "update")),
    "Symbol": (("symbols", "add"), ("symbols", "update")),
    "ByteInterval": (("byte_intervals", "add"), ("byte_intervals", "update")),
    "Section": (("sections", "add"),),
}
NODE_KW = {
    "ProxyBlock": ("module",),
    "Symbol": ("module",),
    "ByteInterval": ("section",),
    "Section": ("module",),
}
# attribute stores that register a node after creation
NODE_ATTR = {"ByteInterval": "section", "Section": "module", "Symbol": "module", "ProxyBlock": "module"}
# containers of the assembler state that are copied into the module by insert()
STATE_CONTAINERS = {
    "ProxyBlock": ("proxies",),
    "Symbol": ("local_symbols",),
}


def _creation_kind(c: ast.Call) -> Optional[str]:
    p = attr_path(c.func)
    if p and len(p) == 2 and p[0] == "gtirb" and p[1] in NODE_SINKS:
        return p[1]
    return None


@rule("C05.4", ["C05", "C03"], "every created proxy/symbol/interval/section is registered with the module", 18)
def c05_4(ctx: Ctx):
    repo = ctx.repo
    for q, fi in sorted(repo.funcs.items()):
        if fi.parent is not None:
            continue
        if q.startswith(("driver.", "assembler.__main__", "assembler._create_gtirb")):
            continue
        for c in calls_in(fi.node, nested=True):
            kind = _creation_kind(c)
            if not kind:
                continue
            construct = f"gtirb.{kind}(...) #{_ordinal(fi, c)}"
            if any(kwarg(c, k) is not None for k in NODE_KW[kind]):
                ctx.ok(fi, c, construct, "registered by constructor keyword")
                continue
            # bound name?
            name = _bound_name(fi, c)
            if name is None:
                # created inline as an argument: e.g. Edge(block, ProxyBlock(module=..))
                ctx.fail(fi, c, construct, f"gtirb.{kind} created inline without module=/section= and never bound: it can not be registered")
                continue
            if _flows_to_sink(fi, name, kind):
                ctx.ok(fi, c, construct, f"`{name}` added to the module/state container")
            else:
                ctx.fail(
                    fi,
                    c,
                    construct,
                    f"`{name}` (gtirb.{kind}) is never added to {NODE_SINKS[kind][0][0]} / given a "
                    f"{NODE_ATTR[kind]}: the node ends up referenced by the IR but outside the module",
                )
    # the assembler-state containers reach the module in insert()
    ins = repo.func("_modify.edit.insert")
    text = [src(n) for n in walk_no_nested(ins.node) if isinstance(n, ast.Expr)]
    for need in ("module.symbols.update(code.symbols)", "module.proxies.update(code.proxies)"):
        ctx.check(
            need in text,
            ins,
            ins.node,
            f"insert(): {need}",
            f"insert() no longer does `{need}`: patch symbols/proxies are referenced but not in the module",
        )
    fin = repo.func("assembler.assembler.Assembler.finalize")
    rc = [c for c in calls_in(fin.node) if src(c.func) == "self.Result"]
    good = False
    if rc:
        kws = {k.arg: src(k.value) for k in rc[0].keywords}
        good = (
            kws.get("proxies") == "self._state.proxies"
            and "self._state.local_symbols" in kws.get("symbols", "")
        )
    ctx.check(good, fin, fin.node, "finalize(): Result carries state.proxies and state.local_symbols",
              "Assembler.finalize no longer passes the state's proxies/symbols into the Result")


def _ordinal(fi: FuncInfo, c: ast.Call) -> int:
    k = _creation_kind(c)
    same = [x for x in calls_in(fi.node, nested=True) if _creation_kind(x) == k]
    same.sort(key=lambda n: (n.lineno, n.col_offset))
    return [id(x) for x in same].index(id(c))


def _bound_name(fi: FuncInfo, c: ast.Call) -> Optional[str]:
    for n in ast.walk(fi.node):
        if isinstance(n, ast.Assign) and n.value is c and len(n.targets) == 1:
            t = n.targets[0]
            if isinstance(t, ast.Name):
                return t.id
        if isinstance(n, ast.AnnAssign) and n.value is c and isinstance(n.target, ast.Name):
            return n.target.id
    return None


def _flows_to_sink(fi: FuncInfo, name: str, kind: str) -> bool:
    for n in ast.walk(fi.node):
        if isinstance(n, ast.Call) and isinstance(n.func, ast.Attribute):
            recv = attr_path(n.func.value)
            if recv and n.args and any(src(a) == name for a in n.args):
                for cont, meth in NODE_SINKS[kind]:
                    if recv[-1] == cont and n.func.attr == meth:
                        return True
                for cont in STATE_CONTAINERS.get(kind, ()):
                    if recv[-1] == cont and n.func.attr in ("add", "update"):
                        return True
        if isinstance(n, ast.Assign):
            for t in n.targets:
                # state.local_symbols[key] = sym
                if isinstance(t, ast.Subscript) and src(n.value) == name:
                    recv = attr_path(t.value)
                    if recv and recv[-1] in STATE_CONTAINERS.get(kind, ()):
                        return True
                # new_interval.section = ...
                if (
                    isinstance(t, ast.Attribute)
                    and isinstance(t.value, ast.Name)
                    and t.value.id == name
                    and t.attr == NODE_ATTR[kind]
                    and not (isinstance(n.value, ast.Constant) and n.value.value is None)
                ):
                    return True
    return False


# ----------------------------------------------------------------------------

IR_MUTATOR_MODULES = (
    "_modify.edit",
    "_modify.split",
    "_modify.join",
    "_modify.remove",
    "_modify.edges",
    "_modify.functions",
    "_modify.retarget",
    "_modify.delete_symbols",
    "intervalutils",
    "prepare",
)


@rule("C05.5", ["C05"], "a patch callback runs before any mutation for its modification, and cannot mutate the IR itself", 3)
def c05_5(ctx: Ctx):
    repo = ctx.repo
    am = repo.func("rewriting.RewritingContext._apply_modifications")
    lin = linear(am.node)
    inv = [g for g, c in lin.all_calls() if src(c.func) == "self._invoke_patch"]
    ins = [g for g, c in lin.all_calls() if src(c.func) == "self._insert_assembler_result"]
    ctx.check(
        len(inv) == 1 and len(ins) == 1 and inv[0].index < ins[0].index
        and inv[0].loops == ins[0].loops,
        am,
        am.node,
        "_invoke_patch precedes _insert_assembler_result in the same loop iteration",
        "the patch callback is no longer invoked strictly before the insertion of the same modification",
    )
    cg = callgraph(repo)
    cone = cg.cone(["rewriting.RewritingContext._invoke_patch"])
    bad = sorted(
        q for q in cone if any(q == m or q.startswith(m + ".") for m in IR_MUTATOR_MODULES)
    )
    ctx.check(
        not bad,
        repo.func("rewriting.RewritingContext._invoke_patch"),
        None,
        "call cone of _invoke_patch contains no IR mutator",
        f"_invoke_patch can reach IR-mutating code {bad[:4]}: an exception in a later patch callback would leave a half-applied edit",
    )
    # no get_or_insert (table creation) in the cone either, apart from ABI/assembler reads
    creators = []
    for q in sorted(cone):
        f = repo.funcs[q]
        for u in aux.table_uses(repo, f):
            if u.method in ("get_or_insert", "set", "remove") and not q.startswith(("abi.",)):
                creators.append(f"{q}:{u.tables}")
    ctx.check(
        not creators,
        repo.func("rewriting.RewritingContext._invoke_patch"),
        None,
        "no aux table is created/replaced while a patch is being invoked",
        f"table writes reachable from _invoke_patch: {creators[:4]}",
    )


@rule("C05.6", ["C05"], "zero-sized leftovers are asserted away; address-less blocks are rejected; layout before and after", 4)
def c05_6(ctx: Ctx):
    repo = ctx.repo
    cl = repo.func("_modify.edit._cleanup_modified_blocks")
    lin = linear(cl.node)
    rets = [g for g in lin.stmts if isinstance(g.node, ast.Return)]
    asserts = [
        g
        for g in lin.stmts
        if isinstance(g.node, ast.Assert)
        and "all(" in src(g.node.test)
        and ".size" in src(g.node.test)
        and not g.loops
    ]
    ok = bool(rets) and bool(asserts) and all(
        any(a.index < r.index and not [x for x in lin.stmts[a.index + 1 : r.index] if not isinstance(x.node, (ast.Expr, ast.Assert))] for a in asserts)
        for r in rets
    )
    ctx.check(ok, cl, cl.node, "assert all(b.size ...) immediately before the return",
              "_cleanup_modified_blocks can return without asserting that no zero-sized block is left")
    mc = repo.func("_modify.cache.ModifyCache.__init__")
    found = False
    for n in walk_no_nested(mc.node):
        if isinstance(n, ast.If) and "address is None" in src(n.test):
            if any(isinstance(s, ast.Raise) for s in n.body):
                found = True
    ctx.check(found, mc, mc.node, "ModifyCache rejects blocks without an address",
              "ModifyCache.__init__ no longer raises for address-less blocks")
    pr = repo.func("prepare.prepare_for_rewriting")
    lin = linear(pr.node)
    ys = [g for g in lin.stmts if isinstance(g.node, ast.Expr) and isinstance(g.node.value, ast.Yield)]
    lay = [g for g, c in lin.all_calls() if src(c.func) == "layout_module"]
    before = [g for g in lay if ys and g.index < ys[0].index]
    after = [g for g in lay if ys and g.index > ys[0].index]
    ctx.check(len(ys) == 1 and bool(before), pr, pr.node, "layout (or integral symbols) before the rewrite",
              "no layout_module call before the yield")
    ctx.check(len(ys) == 1 and bool(after), pr, pr.node, "layout after the rewrite when required",
              "no layout_module call after the yield: new blocks would have no address")
    for g in before + after:
        txt = _atoms_text(g.guard)
        if not any("is_module_layout_required" in t for t in txt):
            ctx.fail(pr, g.node, "layout_module guard", "layout_module is not guarded by is_module_layout_required(module)")


@rule("C05.7", ["C05", "C08"], "CFI directive tuples always carry NULL_UUID or a symbol, never None", 18)
def c05_7(ctx: Ctx):
    repo = ctx.repo
    for mod in repo.mods.values():
        fmap = {}
        for q, fi in repo.funcs.items():
            if fi.mod is mod:
                for n in ast.walk(fi.node):
                    fmap.setdefault(id(n), fi)
        for n in ast.walk(mod.tree):
            if not isinstance(n, ast.Tuple) or len(n.elts) != 3:
                continue
            if not isinstance(getattr(n, "ctx", None), ast.Load):
                continue
            first = n.elts[0]
            s = const_str(first)
            is_cfi = s is not None and s.startswith(".cfi_")
            # rebuilt directives: (directive, args, X) in delete_symbols / retarget
            rebuilt = (
                isinstance(first, ast.Name)
                and first.id == "directive"
                and mod.name in ("_modify.delete_symbols", "_modify.retarget")
            )
            if not (is_cfi or rebuilt):
                continue
            third = n.elts[2]
            fi = fmap.get(id(n))
            where = fi if fi else mod
            good = not (isinstance(third, ast.Constant)) and src(third) not in ("None",)
            if isinstance(third, ast.Constant):
                good = False
            ctx.check(
                good,
                where,
                n,
                f"directive tuple ({src(first)}, ..., {src(third)})",
                f"third element is `{src(third)}`: a CFI directive without symbol must carry NULL_UUID or serialization fails",
                key=f"{mod.name}::{(fi.qual if fi else '')}::{src(first)}::{src(third)}::{_tuple_ord(mod, n)}",
            )


def _tuple_ord(mod, node) -> int:
    same = [
        n
        for n in ast.walk(mod.tree)
        if isinstance(n, ast.Tuple) and len(n.elts) == 3 and dump(n) == dump(node)
    ]
    same.sort(key=lambda n: (n.lineno, n.col_offset))
    return [id(x) for x in same].index(id(node))
