"""C16 - patch prologue/epilogue make the patch transparent (template pairing, accounting, red zone, allocation)."""

from __future__ import annotations

import ast
import re
from typing import Dict, List, Optional, Set, Tuple

from .. import tables
from ..astx import (
    FALSE,
    TRUE,
    GStmt,
    calls_in,
    f_and,
    f_atoms,
    f_not,
    f_or,
    f_show,
    implies,
    linear,
    single_assign_value,
    src,
    walk_no_nested,
)
from ..core import AnalysisError, ClassInfo, Ctx, FuncInfo, Repo, rule
from ..effects import substitute
from ..region import Unknown, linform, minieval

PE = "_create_prologue_and_epilogue"


def template(node: ast.expr) -> Optional[str]:
    """_AsmSnippet(<str or f-string>) -> normalised text with {expr} holes, one instruction per line."""
    if not (isinstance(node, ast.Call) and src(node.func) == "_AsmSnippet" and node.args):
        return None
    a = node.args[0]
    if isinstance(a, ast.Constant) and isinstance(a.value, str):
        text = a.value
    elif isinstance(a, ast.JoinedStr):
        parts = []
        for v in a.values:
            if isinstance(v, ast.Constant):
                parts.append(str(v.value))
            elif isinstance(v, ast.FormattedValue):
                parts.append("{" + src(v.value) + "}")
        text = "".join(parts)
    else:
        return None
    lines = [" ".join(l.split()) for l in text.strip().splitlines()]
    return "\n".join(l for l in lines if l)


# inverse pairs (prologue template regex -> epilogue template builder), SP delta in bytes, stores-below-SP?
H = r"\{[^}]+\}"
PAIRS: List[Tuple[str, str, object, bool]] = [
    (r"pushfd", "popfd", 4, True),
    (r"pushfq", "popfq", 8, True),
    (rf"push %({H})", r"pop %\1", 4, True),
    (rf"pushq %({H})", r"popq %\1", 8, True),
    (rf"leaq -({H})\(%rsp\), %rsp", r"leaq +\1(%rsp), %rsp", "hole", False),
    (rf"stp ({H}), ({H}), \[sp, #-16\]!", r"ldp \1, \2, [sp], #16", 16, True),
    (rf"str ({H}), \[sp, #-16\]!", r"ldr \1, [sp], #16", 16, True),
    (rf"mrs ({H}), nzcv\nstr \1, \[sp, #-16\]!", r"ldr \1, [sp], #16\nmsr nzcv, \1", 16, True),
    (rf"addiu \$sp, \$sp, -({H})", r"addiu $sp, $sp, \1", "hole", False),
    (rf"sw \$({H}), ({H})\(\$sp\)", r"lw $\1, \2($sp)", 0, False),
    (r"push %eax\nmov %esp, %eax\nlea -0x80\(%esp\), %esp\nand \$-0x10, %esp\npush %eax\npush %eax", "pop %eax\nmov %eax, %esp\npop %eax", None, True),
    (r"pushq %rax\nmovq %rsp, %rax\nleaq -0x80\(%rsp\), %rsp\nandq \$-0x10, %rsp\npushq %rax\npushq %rax", "popq %rax\nmovq %rax, %rsp\npopq %rax", None, True),
]


def match_pair(pro: str):
    for rx, inv, delta, stores in PAIRS:
        m = re.fullmatch(rx, pro)
        if m:
            return m.expand(inv), delta, stores, (m.group(1) if m.groups() else None)
    return None


def abi_impls(repo: Repo) -> List[FuncInfo]:
    out = []
    for c in repo.classes.values():
        if c.mod.name == "abi" and PE in c.methods and c.name != "ABI":
            out.append(c.methods[PE])
    if len(out) < 4:
        raise AnalysisError(f"only {len(out)} {PE} implementations found")
    return sorted(out, key=lambda f: f.qual)


def appends(fi: FuncInfo):
    lin = linear(fi.node)
    pro, epi = [], []
    for g, c in lin.all_calls():
        t = src(c.func)
        if t in ("prologue.append", "epilogue.append") and c.args:
            tpl = template(c.args[0])
            if tpl is None:
                raise AnalysisError(f"{fi.qual}: snippet at line {c.lineno} is not a string/f-string template")
            (pro if t.startswith("prologue") else epi).append((g, c, tpl))
    return lin, pro, epi


@rule("C16.1", ["C16"], "every prologue snippet has its inverse in the epilogue under the same condition; the epilogue is emitted in reverse", 16)
def c16_1(ctx: Ctx):
    repo = ctx.repo
    for fi in abi_impls(repo):
        lin, pro, epi = appends(fi)
        used = set()
        for g, c, tpl in pro:
            mp = match_pair(tpl)
            if mp is None:
                raise AnalysisError(f"{fi.qual}: prologue template `{tpl[:40]}` is not in the effect table")
            inv = mp[0]
            partner = [(ge, ce, te) for ge, ce, te in epi if te == inv and ge.guard == g.guard and ge.loops == g.loops and id(ce) not in used]
            ok = bool(partner)
            if ok:
                used.add(id(partner[0][1]))
            ctx.check(ok, fi, c, f"`{tpl.splitlines()[0]}{'...' if chr(10) in tpl else ''}` is undone by `{inv.splitlines()[0]}`",
                      f"no epilogue snippet `{inv}` under the same condition/loop: the register, flags or stack pointer is not restored after the patch",
                      key=f"{fi.qual}::pair::{tpl.splitlines()[0]}")
        for ge, ce, te in epi:
            if id(ce) not in used:
                ctx.fail(fi, ce, f"epilogue `{te.splitlines()[0]}` has no matching prologue snippet", "unpaired epilogue snippet: the stack is unbalanced after the patch")
        rets = [n for n in walk_no_nested(fi.node) if isinstance(n, ast.Return)]
        ok = len(rets) == 1 and isinstance(rets[0].value, ast.Tuple) and len(rets[0].value.elts) == 3 and src(rets[0].value.elts[0]) == "prologue" and src(rets[0].value.elts[1]) == "reversed(epilogue)"
        ctx.check(ok, fi, rets[0] if rets else fi.node, "returns (prologue, reversed(epilogue), adjustment): restores happen in LIFO order",
                  f"return value is `{src(rets[0].value) if rets else '?'}`: pops in push order restore the wrong registers")
    # ARM64: the flags temporary is a scratch register or is saved like a clobbered one before the save loop
    fa = repo.func("abi._ARM64_ELF." + PE)
    lin = linear(fa.node)
    app = [(g, c) for g, c in lin.all_calls() if src(c) == "register_use.clobbered_registers.append(flags_reg)"]
    loop = [g for g in lin.stmts if isinstance(g.node, ast.For) and "register_use.clobbered_registers" in src(g.node.iter)]
    ok = len(app) == 1 and len(loop) == 1 and app[0][0].index < loop[0].index and lin.under(app[0][0], "not register_use.scratch_registers") and lin.under(app[0][0], "constraints.clobbers_flags")
    ctx.check(ok, fa, app[0][1] if app else fa.node, "ARM64: a borrowed flags temporary is added to the saved registers before they are pushed",
              "the flags temporary is not saved (or added after the save loop): the patch clobbers a live register")
    fr = [g for g in lin.stmts if isinstance(g.node, ast.Assign) and src(g.node.targets[0]) == "flags_reg" and not (isinstance(g.node.value, ast.Constant))]
    srcs = sorted(src(g.node.value) for g in fr)
    ctx.check(srcs == ["register_use.available_registers.pop(0)", "register_use.scratch_registers[0]"], fa, fa.node,
              "ARM64: the flags temporary is the first scratch register, else the next available one", f"sources: {srcs}")


@rule("C16.2", ["C16", "C17"], "the reported stack_adjustment equals the real displacement of the emitted snippets (None when unknown)", 12)
def c16_2(ctx: Ctx):
    repo = ctx.repo
    for fi in abi_impls(repo):
        lin, pro, epi = appends(fi)
        incs = [g for g in lin.stmts if isinstance(g.node, ast.AugAssign) and src(g.node.target) == "stack_adjustment" and isinstance(g.node.op, ast.Add)]
        is_mips = "MIPS" in fi.qual
        covered: Dict[int, List] = {id(x): [] for x in incs}
        for g, c, tpl in pro:
            inv, delta, stores, hole = match_pair(tpl)
            name = tpl.splitlines()[0]
            if delta is None:
                # align-stack: displacement unknown
                ks = [x for x in lin.stmts if isinstance(x.node, ast.Assign) and src(x.node.targets[0]) == "knows_stack_adjustment" and src(x.node.value) == "False" and x.guard == g.guard]
                ctx.check(bool(ks), fi, c, "align-stack snippet: adjustment becomes unknown",
                          "after the align-stack snippet the displacement is unknown but stack_adjustment is still reported as a number", key=f"{fi.qual}::acct::align")
                continue
            if is_mips or delta == 0:
                continue
            # increments that happen whenever this snippet is emitted (same loop iteration)
            cand = [x for x in incs if x.loops == g.loops and implies(g.guard, x.guard)]
            ok = len(cand) == 1
            if ok:
                covered[id(cand[0])].append((g, tpl))
                v = cand[0].node.value
                if delta == "hole":
                    hv = hole.strip("{}")
                    rz = single_assign_value(fi.node, hv)
                    ok = src(v) == hv or (rz is not None and src(v) == src(rz))
                else:
                    try:
                        ok = minieval(v, {}) == delta
                    except Unknown:
                        ok = False
            ctx.check(ok, fi, c, f"`{name}` moves SP by {delta if delta != 'hole' else hole} and stack_adjustment grows by the same",
                      f"{len(cand)} increment(s) of stack_adjustment accompany `{name}`"
                      + (f" (+= {src(cand[0].node.value)})" if cand else "")
                      + f"; the real displacement is {delta if delta != 'hole' else hole}: CallPatch computes its alignment padding from this number",
                      key=f"{fi.qual}::acct::{name}")
        for x in incs:
            snips = covered[id(x)]
            # every time the increment runs, exactly one of its snippets was emitted
            union = FALSE
            for g, _ in snips:
                union = f_or(union, g.guard)
            ok = bool(snips) and implies(x.guard, union)
            for i in range(len(snips)):
                for j in range(i + 1, len(snips)):
                    from ..astx import exclusive

                    ok = ok and exclusive(snips[i][0].guard, snips[j][0].guard)
            ctx.check(ok, fi, x.node, f"stack_adjustment += {src(x.node.value)} always accompanies exactly one SP-moving snippet",
                      "an increment of stack_adjustment can run without (or with more than one) snippet that moves the stack pointer")
        rets = [n for n in walk_no_nested(fi.node) if isinstance(n, ast.Return)]
        third = src(rets[0].value.elts[2]) if rets and isinstance(rets[0].value, ast.Tuple) and len(rets[0].value.elts) == 3 else "?"
        has_align = any(match_pair(t)[1] is None for _, _, t in pro)
        want = "stack_adjustment if knows_stack_adjustment else None" if has_align else "stack_adjustment"
        ctx.check(third == want, fi, rets[0] if rets else fi.node, f"third result is `{want}`", f"third result is `{third}`")
        init = [g for g in lin.stmts if isinstance(g.node, ast.Assign) and src(g.node.targets[0]) == "stack_adjustment" and src(g.node.value) == "0"]
        ctx.check(len(init) >= 1 and init[0].top, fi, init[0].node if init else fi.node, "stack_adjustment starts at 0", "initial value changed")
    # MIPS frame: one addiu by 4*n, stores at 4*i
    fm = repo.func("abi._MIPS32_ELF." + PE)
    lin = linear(fm.node)
    sa = [g for g in lin.stmts if isinstance(g.node, ast.Assign) and src(g.node.targets[0]) == "stack_adjustment" and "len(" in src(g.node.value)]
    ok = len(sa) == 1 and src(sa[0].node.value).replace(" ", "") in ("len(register_use.clobbered_registers)*4", "4*len(register_use.clobbered_registers)")
    ctx.check(ok, fm, sa[0].node if sa else fm.node, "MIPS: frame size is 4 bytes per saved register", "frame size changed")
    off = single_assign_value(fm.node, "offset")
    ctx.check(off is not None and src(off).replace(" ", "") in ("index*4", "4*index"), fm, off or fm.node, "MIPS: register i is stored at 4*i", "slot offset changed")
    _, pro, _ = appends(fm)
    frame = [(g, c, t) for g, c, t in pro if t.startswith("addiu")]
    stores = [(g, c, t) for g, c, t in pro if t.startswith("sw")]
    ok = len(frame) == 1 and len(stores) == 1 and frame[0][0].index < stores[0][0].index and "{stack_adjustment}" in frame[0][2] and lin.under(frame[0][0], "stack_adjustment != 0")
    ctx.check(ok, fm, frame[0][1] if frame else fm.node, "MIPS: SP is lowered by the frame size before any register is stored into the frame",
              "stores precede the frame allocation (they would write above the frame) or the frame size is wrong")
    ctx.check(bool(stores) and "enumerate(register_use.clobbered_registers)" in src(stores[0][0].loops[0].iter) if stores and stores[0][0].loops else False, fm, fm.node,
              "MIPS: one slot per saved register", "store loop changed")


def _loop_truthiness(lin, g: GStmt, fi) -> tuple:
    """guard of g with loop-iteration atoms replaced by truthiness of the iterated expression."""
    f = g.guard
    env = {}
    for a in f_atoms(f):
        if isinstance(a, tuple) and str(a[0]).startswith("<iter#"):
            # which loop?
            for lp in g.loops:
                body0 = lin.of(lp.body[0])
                if a in f_atoms(body0.guard) and a not in f_atoms(lin.of(lp).guard):
                    it = lp.iter
                    env[a] = lin.cond(it, {})
    if not env:
        return f

    def sub(x):
        k = x[0]
        if k == "atom":
            return env.get(x[1], x)
        if k == "not":
            return f_not(sub(x[1]))
        if k == "and":
            return f_and(*[sub(y) for y in x[1:]])
        if k == "or":
            return f_or(*[sub(y) for y in x[1:]])
        return x

    return sub(f)


def _strip_versions(f):
    k = f[0]
    if k == "atom":
        return ("atom", (f[1][0], ()))
    if k in ("not", "and", "or"):
        return (k, *[_strip_versions(x) for x in f[1:]])
    return f


@rule("C16.3", ["C16"], "with a red zone, the skip is emitted before any snippet that stores below the stack pointer", 3)
def c16_3(ctx: Ctx):
    repo = ctx.repo
    n = 0
    for fi in abi_impls(repo):
        cls = fi.cls
        assert cls is not None
        users = [c for c in [cls] + repo.subclasses(cls) if _const_return(repo, c, "red_zone_size") not in (0, None)]
        if not users:
            ctx.ok(fi, fi.node, f"{cls.name}: no red zone for any class using this prologue", nontrivial=False, key=f"C16.3::{cls.name}::none")
            continue
        lin, pro, _ = appends(fi)
        skips = [(g, c, t) for g, c, t in pro if t.startswith("leaq -{")]
        if len(skips) != 1:
            ctx.fail(fi, fi.node, f"{cls.name}: red-zone skip", f"{len(skips)} red-zone skip snippets found for an ABI with a {_const_return(repo, users[0], 'red_zone_size')}-byte red zone")
            continue
        gk = _strip_versions(_loop_truthiness(lin, skips[0][0], fi))
        assume = {}
        for a in f_atoms(gk):
            if a[0] in ("rz_size", "is_leaf_function", "self.red_zone_size()"):
                assume[a] = True
        gk = substitute(gk, assume)
        hv = skips[0][2][len("leaq -{"):].split("}")[0]
        hvv = single_assign_value(fi.node, hv)
        ctx.check(hv == "self.red_zone_size()" or (hvv is not None and src(hvv) == "self.red_zone_size()"), fi, skips[0][1],
                  "the skip is the ABI's red_zone_size()", f"skip amount is `{hv}`")
        ctx.check(lin.under(skips[0][0], "is_leaf_function") and (lin.under(skips[0][0], "rz_size") or lin.under(skips[0][0], "self.red_zone_size()")), fi, skips[0][1],
                  "the skip is emitted for (potential) leaf functions when the ABI has a red zone", f"guard is {f_show(skips[0][0].guard)}")
        for g, c, t in pro:
            mp = match_pair(t)
            if not mp[2]:
                continue
            n += 1
            gs = _strip_versions(_loop_truthiness(lin, g, fi))
            what = "align_stack" if mp[1] is None else t.splitlines()[0]
            ok = skips[0][0].index < g.index and implies(gs, gk)
            ctx.check(ok, fi, c, f"`{t.splitlines()[0]}` (stores below SP) is preceded by the red-zone skip",
                      f"`{t.splitlines()[0]}` is emitted under {f_show(gs)} but the red-zone skip only under {f_show(gk)} (leaf function assumed): "
                      "the store lands inside the red zone of the interrupted function", key=f"C16.3::{cls.name}::{what}")
    if n < 3:
        raise AnalysisError(f"only {n} store snippets examined")


def _const_return(repo: Repo, ci: ClassInfo, method: str):
    m = repo.method(ci, method)
    if m is None:
        return None
    rets = [n for n in walk_no_nested(m.node) if isinstance(n, ast.Return)]
    if len(rets) == 1 and isinstance(rets[0].value, ast.Constant):
        return rets[0].value.value
    return None


@rule("C16.5", ["C16", "C11", "C07"], "register allocation: reads and clobbers resolved through get_register, scratch is a prefix, result order is total", 12)
def c16_5(ctx: Ctx):
    repo = ctx.repo
    fi = repo.func("abi.ABI._allocate_patch_registers")
    lin = linear(fi.node)
    loops = {src(g.node.iter): g for g in lin.stmts if isinstance(g.node, ast.For)}
    for it, what in (("constraints.clobbers_registers", "clobber"), ("constraints.reads_registers", "read")):
        g = loops.get(it)
        ok = g is not None
        if ok:
            body = " ; ".join(src(s) for s in g.node.body)
            ok = f"reg = self.get_register({src(g.node.target)})" in body and "available_scratch_registers.remove(reg)" in body
        ctx.check(ok, fi, g.node if g else fi.node, f"every {what} register is resolved with get_register (aliases, sub-registers, case) and leaves the scratch pool",
                  f"the {what}-register loop changed: a register named by an alias or in upper case (as the library's own convention tables do) would stay in the scratch pool")
    rd = loops.get("constraints.reads_registers")
    cl = loops.get("constraints.clobbers_registers")
    sc = [g for g in lin.stmts if isinstance(g.node, ast.Assign) and src(g.node.targets[0]) == "scratch_registers"]
    ok = len(sc) == 1 and rd is not None and cl is not None and sc[0].index > rd.index and sc[0].index > cl.index and src(sc[0].node.value).replace(" ", "") == "available_scratch_registers[:constraints.scratch_registers]"
    ctx.check(ok, fi, sc[0].node if sc else fi.node, "scratch registers are the first n of the pool left after both removals", "scratch selection changed")
    if cl is not None:
        ctx.check("clobbered_registers.add(reg)" in " ".join(src(s) for s in cl.node.body) and not any(isinstance(s, ast.If) and "clobbered_registers.add" in src(s) for s in cl.node.body), fi, cl.node,
                  "every declared clobber is preserved (added unconditionally)", "clobber bookkeeping became conditional")
    er = [g for g in lin.stmts if isinstance(g.node, ast.Raise)]
    ctx.check(len(er) == 1 and lin.under(er[0], "constraints.scratch_registers > len(available_scratch_registers)") and "ValueError" in src(er[0].node) and sc and er[0].index < sc[0].index, fi, fi.node,
              "too few scratch registers -> ValueError", "shortage check changed")
    ups = [(g, c) for g, c in lin.all_calls() if src(c.func) == "clobbered_registers.update"]
    srt = [(g, c) for g, c in lin.all_calls() if isinstance(c.func, ast.Name) and c.func.id == "sorted" and "clobbered_registers" in src(c.args[0])]
    ok = len(srt) == 1 and all(g.index < srt[0][0].index or g.node is srt[0][0].node for g, _ in ups) and len(ups) == 2
    texts = sorted(src(c.args[0]) for _, c in ups)
    ctx.check(ok and texts == ["scratch_registers", "self.caller_saved_registers()"], fi, srt[0][1] if srt else fi.node,
              "scratch and caller-saved registers join the set *before* it is sorted",
              f"updates {texts} / sort order changed: registers appended after the sort come out in set (hash) order, so the prologue differs from run to run")
    cs = [g for g, c in ups if "caller_saved_registers" in src(c)]
    ctx.check(len(cs) == 1 and lin.under(cs[0], "constraints.preserve_caller_saved_registers"), fi, fi.node, "caller-saved registers are preserved on request", "changed")
    if srt:
        key = [k.value for k in srt[0][1].keywords if k.arg == "key"]
        ok = len(key) == 1 and isinstance(key[0], ast.Lambda) and src(key[0].body) == f"registers_indices[{key[0].args.args[0].arg}]"
        ri = single_assign_value(fi.node, "registers_indices")
        ok = ok and ri is not None and src(ri).replace(" ", "") == "{reg:ifori,reginenumerate(self.all_registers())}"
        ctx.check(ok, fi, srt[0][1], "result is sorted by the register's index in all_registers() (a total order)", "sort key changed")
    ret = [n for n in walk_no_nested(fi.node) if isinstance(n, ast.Return)]
    ok = len(ret) == 1 and isinstance(ret[0].value, ast.Call) and len(ret[0].value.args) == 3 and src(ret[0].value.args[1]) == "scratch_registers" and src(ret[0].value.args[2]) == "available_scratch_registers" and srt and ret[0].value.args[0] is srt[0][1]
    ctx.check(ok, fi, ret[0] if ret else fi.node, "returns (sorted clobbers, scratch, remaining pool)", "result changed")
    # scratch pools contain no reserved registers
    a64 = repo.func("abi._ARM64_ELF._scratch_registers")
    excl = set()
    for n in ast.walk(a64.node):
        if isinstance(n, ast.Compare) and isinstance(n.ops[0], ast.NotIn) and src(n.left) == "reg.name":
            excl = {e.value for e in n.comparators[0].elts if isinstance(e, ast.Constant)}
    ctx.check({"x16", "x17", "x18", "x29", "x30"} <= excl, a64, a64.node, "ARM64: x16-x18, x29, x30 are never scratch registers", f"excluded set is {sorted(excl)}")
    mp = repo.func("abi._MIPS32_ELF._scratch_registers")
    t = src(mp.node)
    lo_hi = None
    for c in calls_in(mp.node):
        if src(c.func) == "self._inclusive_range" and len(c.args) == 2:
            lo_hi = (minieval(c.args[0], {}), minieval(c.args[1], {}))
    ctx.check("self.get_register(f't{i}')" in t and lo_hi is not None and lo_hi[0] >= 0 and lo_hi[1] <= 7, mp, mp.node, "MIPS: scratch registers are $t0-$t7 ($t8 is used by the prologue, $t9 by calls)", f"range {lo_hi}")
    for q in ("abi._X86_64.all_registers", "abi._IA32.all_registers"):
        f = repo.func(q)
        names = {n.value for n in ast.walk(f.node) if isinstance(n, ast.Constant) and isinstance(n.value, str)}
        bad = names & {"rsp", "esp", "sp", "rbp", "ebp", "bp", "spl", "bpl"}
        ctx.check(not bad, f, f.node, f"{q.split('.')[1]}: stack/frame pointer are not allocatable", f"allocatable registers include {sorted(bad)}")
    # leaf decision
    ip = repo.func("rewriting.RewritingContext._invoke_patch")
    il = single_assign_value(ip.node, "is_leaf")
    if il is None:
        raise AnalysisError("_invoke_patch: is_leaf not found")
    for has_fn, flag in ((False, 0), (True, 0), (True, 1)):
        env = {"context.function": "F" if has_fn else None, "self._leaf_functions.get(context.function.uuid, 1)": flag}
        try:
            got = bool(minieval(il, env))
        except Unknown as exc:
            raise AnalysisError(f"is_leaf not interpretable: {exc}")
        want = (not has_fn) or bool(flag)
        ctx.check(got == want, ip, il, f"is_leaf row (in a function={has_fn}, leaf flag={flag})",
                  f"is_leaf={got}, expected {want}: a block outside any function must be treated as a potential leaf (red zone in use)", key=f"C16.5::leaf::{has_fn}{flag}")
    ap = repo.func("rewriting.RewritingContext.apply")
    la = linear(ap.node)
    fn = [g for g in la.stmts if isinstance(g.node, ast.Assign) and src(g.node.targets[0]) == "func" and src(g.node.value) == "None"]
    ok = len(fn) == 1 and len(fn[0].loops) == 1 and "sorted_blocks" in src(fn[0].loops[0].iter) and fn[0].nest == 1
    ctx.check(ok, ap, fn[0].node if fn else ap.node, "apply(): `func` is reset for every block",
              "`func = None` is not executed per block: a block outside any function inherits the previous block's function (leaf status, InsertionContext.function)")


@rule("C16.6", ["C16", "C01", "C10"], "every registered ABI implements the whole interface the rewriter calls", 30)
def c16_6(ctx: Ctx):
    repo = ctx.repo
    abis = repo.mod("abi").toplevel_assign("_ABIS")
    if not isinstance(abis, ast.Dict):
        raise AnalysisError("_ABIS is not a dict literal")
    base = repo.cls("abi.ABI")
    abstract = [name for name, m in base.methods.items() if any(isinstance(s, ast.Raise) and "NotImplementedError" in src(s) for s in m.node.body)]
    needed = [a for a in abstract if a != "default_dwarf_eh_return_column"]
    for v in abis.values:
        cname = src(v.func) if isinstance(v, ast.Call) else src(v)
        ci = repo.cls(f"abi.{cname}")
        for a in needed:
            m = repo.method(ci, a)
            ok = m is not None and m.cls is not base
            ctx.check(ok, m or ci.mod, (m.node if m else ci.node), f"{cname}.{a} is implemented",
                      f"{cname} inherits ABI.{a} which raises NotImplementedError", key=f"C16.6::{cname}::{a}")
        for meth, table in (("red_zone_size", tables.RED_ZONE), ("pointer_size", tables.POINTER_SIZE)):
            got = _const_return(repo, ci, meth)
            ctx.check(got == table.get(cname), repo.method(ci, meth) or ci.mod, None, f"{cname}.{meth}() == {table.get(cname)}", f"returns {got}", key=f"C16.6::{cname}::{meth}::value")
        nop = repo.method(ci, "nop")
        got = _const_return(repo, ci, "nop")
        ctx.check(got == tables.NOP.get(cname), nop or ci.mod, None, f"{cname}.nop() is the ISA's nop encoding", f"returns {got!r}", key=f"C16.6::{cname}::nop::value")
