"""
Rules motivated by first-order mutants of the anchored files that the
repository's own test-suite does not notice (tools/mutgen.py): mechanisms of
the twenty properties that no earlier rule looked at.
"""

from __future__ import annotations

import ast
import itertools
from typing import Dict, List, Optional, Set

from .. import tables
from ..astx import calls_in, f_atoms, f_show, linear, single_assign_value, src, walk_no_nested
from ..core import AnalysisError, Ctx, rule
from ..region import Unknown, minieval

ST = "assembler.assembler._Streamer."


@rule("C20.7", ["C20", "C09", "C02"], "a symbol leaves _referents and its tree node together (both directions)", 2)
def c20_7(ctx: Ctx):
    cls = ctx.repo.cls("_modify.cache.ReferenceCache")
    n = 0
    for name, m in sorted(cls.methods.items()):
        lin = linear(m.node)
        for g in lin.stmts:
            pops = [c for c in lin.stmt_calls(g) if src(c.func) == "self._referents.pop" and c.args]
            dels = [t for t in (g.node.targets if isinstance(g.node, ast.Delete) else []) if isinstance(t, ast.Subscript) and src(t.value) == "self._referents"]
            for sym in [src(c.args[0]) for c in pops] + [src(t.slice) for t in dels]:
                n += 1
                mirror = [
                    x for x in lin.stmts
                    if any(isinstance(c.func, ast.Attribute) and c.func.attr in ("remove", "discard") and src(c.func.value).endswith(".symbols") and c.args and src(c.args[0]) == sym for c in lin.stmt_calls(x))
                    and x.guard == g.guard
                ]
                ctx.check(bool(mirror), m, g.node, f"{name}: removal of `{sym}` from _referents is mirrored by <node>.symbols.remove({sym})",
                          f"`{sym}` leaves _referents but stays in its tree node: the next flattening of that tree yields it again (KeyError in _make_direct_refs / referent overwritten)",
                          key=f"C20.7::{name}::{sym}")
    if n < 2:
        raise AnalysisError(f"only {n} removals from _referents found")


@rule("C05.9", ["C05", "C12", "C04"], "everything the assembler produced for a section is carried into the module by insert()", 10)
def c05_9(ctx: Ctx):
    repo = ctx.repo
    sec = repo.cls("assembler.assembler.Assembler.Result.Section")
    fields = [s.target.id for s in sec.node.body if isinstance(s, ast.AnnAssign) and isinstance(s.target, ast.Name)]
    meta = {"name", "flags", "image_type", "image_flags", "line_map"}
    payload = [f for f in fields if f not in meta]
    if len(payload) < 6:
        raise AnalysisError(f"Result.Section payload fields not recognised: {fields}")
    ins = repo.func("_modify.edit.insert")
    oth = repo.func("_modify.edit._add_other_section_contents")
    ti, to = src(ins.node), src(oth.node)
    for f in payload:
        if f == "cfi_procedures":
            ctx.check("code.create_cfi_directives()" in ti and "cfi_table.update(code.create_cfi_directives())" in ti, ins, ins.node,
                      "CFI procedures of the patch reach cfiDirectives", "patch CFI directives are not copied into the module")
            continue
        ctx.check(f"text_section.{f}" in ti, ins, ins.node, f"insert(): text_section.{f} is consumed",
                  f"`text_section.{f}` is never read by insert(): that part of the assembler's output ({f}) is dropped for patches",
                  key=f"C05.9::text::{f}")
        ctx.check(f"sect.{f}" in to, oth, oth.node, f"_add_other_section_contents(): sect.{f} is consumed",
                  f"`sect.{f}` is never read for additional patch sections", key=f"C05.9::other::{f}")
    # table-valued fields go into the right aux tables
    pairs = {"alignment": "alignment", "block_types": "encodings"}
    for fld, table in pairs.items():
        for fi, recv, t in ((ins, "text_section", ti), (oth, "sect", to)):
            ok = f"{table}_table.update({recv}.{fld}.items())" in t and f"{table}_table = _auxdata.{table}.get_or_insert(module)" in t
            ctx.check(ok, fi, fi.node, f"{fi.name}: {recv}.{fld} -> aux table {table}",
                      f"{recv}.{fld} no longer updates the {table} table: " + ("data blocks of patches lose their string/LEB128 type" if table == "encodings" else "alignment of patch blocks is lost"),
                      key=f"C05.9::{fi.name}::{fld}")
    res = repo.cls("assembler.assembler.Assembler.Result")
    rfields = [s.target.id for s in res.node.body if isinstance(s, ast.AnnAssign) and isinstance(s.target, ast.Name)]
    for f in ("cfg", "symbols", "proxies", "elf_symbol_attributes", "sections"):
        ctx.check(f in rfields and f"code.{f}" in ti, ins, ins.node, f"insert(): code.{f} is consumed", f"`code.{f}` is not used by insert()", key=f"C05.9::result::{f}")


@rule("C03.9", ["C03"], "a patch's own `ret` edges are re-pointed to the function's real return sites (and only those edges)", 5)
def c03_9(ctx: Ctx):
    fi = ctx.repo.func("_modify.edit._update_patch_return_edges_to_match")
    pre = single_assign_value(fi.node, "patch_return_edges")
    if not isinstance(pre, ast.SetComp) or not pre.generators[0].ifs:
        raise AnalysisError("_update_patch_return_edges_to_match: patch_return_edges comprehension not found")
    cond = pre.generators[0].ifs[0]
    conj = sorted(src(v) for v in cond.values) if isinstance(cond, ast.BoolOp) and isinstance(cond.op, ast.And) else [src(cond)]
    ctx.check(conj == ["_is_return_edge(edge)", "edge.target in new_proxy_blocks"], fi, cond,
              "patch return edges = Return edges whose target is one of the patch's own proxies",
              f"selection is `{src(cond)}`: other edges of the patch (or return edges that already have real targets) would be rewritten")
    ctx.check(src(pre.generators[0].iter) == "new_cfg", fi, pre, "only edges of the patch CFG are considered", "iterates another CFG")
    lin = linear(fi.node)
    upd = [c for c in calls_in(fi.node) if src(c.func) == "return_targets.update"]
    ok = len(upd) == 1 and isinstance(upd[0].args[0], ast.GeneratorExp)
    if ok:
        ge = upd[0].args[0]
        ok = src(ge.elt) == "edge.target" and "block_return_edges(func_block)" in src(ge.generators[0].iter) and [src(i) for i in ge.generators[0].ifs] == ["not isinstance(edge.target, gtirb.ProxyBlock)"]
    ctx.check(ok, fi, upd[0] if upd else fi.node, "return sites = non-proxy targets of the existing return edges of every block of the function", "return-site collection changed")
    adds = [(g, c) for g, c in lin.all_calls() if src(c.func) == "new_cfg.add"]
    ok = len(adds) == 1 and len(adds[0][0].loops) == 2 and "Type.Return" in src(adds[0][1]) and "source=edge.source" in src(adds[0][1]).replace(" ", "") and "target=target" in src(adds[0][1]).replace(" ", "")
    ctx.check(ok, fi, adds[0][1] if adds else fi.node, "one Return edge per (patch ret, return site)", "edge creation changed")
    dis = [(g, c) for g, c in lin.all_calls() if src(c) in ("new_cfg.discard(edge)", "new_proxy_blocks.discard(edge.target)")]
    ctx.check(len(dis) == 2, fi, fi.node, "the placeholder proxy edge and its proxy are dropped", "placeholder cleanup changed")
    early = [g for g in lin.stmts if isinstance(g.node, ast.Return)]
    conds = sorted(f_show(g.guard) for g in early)
    ctx.check(len(early) == 3, fi, fi.node, "no-op when the patch has no ret, the block has no function, or the function has no known return site", f"early returns: {conds}")


@rule("C16.8", ["C16", "C17", "C15", "C13"], "ABI constant tables (caller-saved sets, label prefixes, return columns) have the reviewed values", 10)
def c16_8(ctx: Ctx):
    repo = ctx.repo

    def fold_names(fn) -> Set[str]:
        names: Set[str] = set()
        for c in calls_in(fn.node, nested=True):
            if src(c.func) == "self.get_register" and c.args:
                a = c.args[0]
                if isinstance(a, ast.Constant):
                    names.add(a.value)
        # f"x{i}" for i in self._inclusive_range(a, b)
        for n in ast.walk(fn.node):
            if isinstance(n, (ast.SetComp, ast.ListComp, ast.GeneratorExp)):
                gen = n.generators[0]
                if isinstance(gen.iter, ast.Call) and src(gen.iter.func) == "self._inclusive_range" and isinstance(n.elt, ast.Call) and n.elt.args and isinstance(n.elt.args[0], ast.JoinedStr):
                    lo, hi = minieval(gen.iter.args[0], {}), minieval(gen.iter.args[1], {})
                    js = n.elt.args[0]
                    prefix = "".join(v.value for v in js.values if isinstance(v, ast.Constant))
                    names |= {f"{prefix}{i}" for i in range(lo, hi + 1)}
            if isinstance(n, (ast.List, ast.Tuple)) and n.elts and all(isinstance(e, ast.Constant) and isinstance(e.value, str) for e in n.elts):
                parent_for = [f for f in ast.walk(fn.node) if isinstance(f, ast.For) and f.iter is n]
                if parent_for:
                    names |= {e.value for e in n.elts}
        return names

    want = {
        "_ARM64_ELF": {f"x{i}" for i in range(0, 16)} | {"x29", "x30"},
        "_MIPS32_ELF": {f"t{i}" for i in range(0, 10)} | {f"a{i}" for i in range(0, 4)} | {"v0", "v1"},
    }
    need = {"_ARM64_ELF": {f"x{i}" for i in range(0, 18)} | {"x30"}}  # see C16.14
    for cname, w in want.items():
        m = repo.func(f"abi.{cname}.caller_saved_registers")
        got = fold_names(m)
        w = w | (got & need.get(cname, set()))
        ctx.check(got == w, m, m.node, f"{cname} caller-saved set = {sorted(w)[:4]}..({len(w)})",
                  f"caller-saved set is {sorted(got)}: missing {sorted(w - got)}, extra {sorted(got - w)} - a register the callee may clobber is not preserved around CallPatch",
                  key=f"C16.8::cs::{cname}")
        rets = [n for n in walk_no_nested(m.node) if isinstance(n, ast.Return)]
        ctx.check(len(rets) == 1 and src(rets[0].value) == "results", m, m.node, f"{cname}.caller_saved_registers returns the built set", "return changed")
    prefixes = {"_X86_64_ELF": ".L", "_X86_64_PE": ".L", "_IA32_PE": "L", "_ARM64_ELF": ".L", "_MIPS32_ELF": "$L"}  # private-label prefix of the LLVM target (mips O32: `$`)
    for cname, w in prefixes.items():
        m = repo.method(repo.cls(f"abi.{cname}"), "temporary_label_prefix")
        rets = [n for n in walk_no_nested(m.node) if isinstance(n, ast.Return)] if m else []
        got = rets[0].value.value if len(rets) == 1 and isinstance(rets[0].value, ast.Constant) else None
        ctx.check(got == w, m or repo.cls(f"abi.{cname}").mod, None, f"{cname}.temporary_label_prefix() == {w!r}", f"returns {got!r}", key=f"C16.8::prefix::{cname}")
    cols = {"_X86_64_ELF": 16, "_X86_64_PE": 16, "_IA32_PE": 8, "_ARM64_ELF": 30, "_MIPS32_ELF": 31}  # CIE return address column: RIP=16, x30 (LR), $ra (r31)
    for cname, w in cols.items():
        m = repo.method(repo.cls(f"abi.{cname}"), "default_dwarf_eh_return_column")
        rets = [n for n in walk_no_nested(m.node) if isinstance(n, ast.Return)] if m else []
        got = rets[0].value.value if len(rets) == 1 and isinstance(rets[0].value, ast.Constant) else None
        ctx.check(got == w, m or repo.cls(f"abi.{cname}").mod, None, f"{cname}.default_dwarf_eh_return_column() == {w}", f"returns {got!r}", key=f"C16.8::col::{cname}")
    a64 = repo.func("patches.calls._CallPatchARM64.__init__")
    us = single_assign_value(a64.node, "uses_stack")
    ctx.check(us is not None and src(us).replace(" ", "") == "any((Trueforarginself._argsifnotarg.reg))", a64, us or a64.node,
              "ARM64: the x0 temporary is declared clobbered exactly when some argument goes to the stack", f"uses_stack = {src(us) if us else '?'}")
    gr = repo.func("abi.ABI.get_register")
    ctx.check("return self._register_map[name.lower()]" in src(gr.node), gr, gr.node, "register lookup is case-insensitive", "changed")


@rule("C12.9", ["C12", "C13", "C04"], "symbol operands: PLT inference, expression patterns and string/int emission bookkeeping", 10)
def c12_9(ctx: Ctx):
    repo = ctx.repo
    fi = repo.func(ST + "_get_symbol_ref_attrs")
    lin = linear(fi.node)
    plt = [(g, c) for g, c in lin.all_calls() if src(c) == "attributes.add(compat_proto.PLT)"]
    if len(plt) != 1:
        raise AnalysisError("_get_symbol_ref_attrs: PLT inference not found")
    need = [
        "expr.variant_kind == mcasm.mc.SymbolRefExpr.VariantKind.None_",
        "self._state.target.isa in (gtirb.Module.ISA.IA32, gtirb.Module.ISA.X64)",
        "_is_elf_pie(self._state.target.file_format, self._state.target.binary_type)",
        "isinstance(sym.referent, gtirb.ProxyBlock)",
        "is_branch",
    ]
    atoms = {a[0] for a in f_atoms(plt[0][0].guard)}
    for c in need:
        ctx.check(lin.under(plt[0][0], c), fi, plt[0][1], f"PLT is inferred only when `{c}`",
                  f"the PLT attribute is added without requiring `{c}`: e.g. data references or internal symbols get @PLT", key=f"C12.9::plt::{c[:40]}")
    ctx.check(len(atoms) == len(need), fi, plt[0][1], "PLT inference depends on exactly these five conditions", f"conditions: {sorted(atoms)}")
    va = [(g, c) for g, c in lin.all_calls() if src(c) == "attributes.update(variant_attrs)"]
    ctx.check(len(va) == 1 and lin.under(va[0][0], "expr.variant_kind != mcasm.mc.SymbolRefExpr.VariantKind.None_"), fi, fi.node, "an explicit @variant contributes its table attributes", "changed")
    r = [g for g in lin.stmts if isinstance(g.node, ast.Raise)]
    ctx.check(len(r) == 1 and lin.under(r[0], "variant_attrs is None"), fi, fi.node, "unknown variants are refused", "changed")
    me = repo.func(ST + "_mcexpr_to_symbolic_operand")
    pats = []
    for n in walk_no_nested(me.node):
        if isinstance(n, ast.If) and isinstance(n.test, ast.BoolOp) and "isinstance(expr, mcasm.mc.BinaryExpr)" in src(n.test):
            pats.append(n)
    wants = [
        ["expr.opcode == mcasm.mc.BinaryExpr.Opcode.Add", "isinstance(expr, mcasm.mc.BinaryExpr)", "isinstance(expr.lhs, mcasm.mc.SymbolRefExpr)", "isinstance(expr.rhs, mcasm.mc.ConstantExpr)"],
        ["expr.opcode == mcasm.mc.BinaryExpr.Opcode.Sub", "isinstance(expr, mcasm.mc.BinaryExpr)", "isinstance(expr.lhs, mcasm.mc.SymbolRefExpr)", "isinstance(expr.rhs, mcasm.mc.SymbolRefExpr)"],
    ]
    ctx.check(len(pats) == 2, me, me.node, "two binary-expression patterns (sym+const, sym-sym)", f"{len(pats)} patterns")
    for p, w in zip(pats, wants):
        got = sorted(src(v) for v in p.test.values) if isinstance(p.test.op, ast.And) else [src(p.test)]
        ctx.check(got == sorted(w), me, p.test, f"pattern `{w[0].split('.')[-1]}` requires exactly its four conditions",
                  f"pattern test is `{src(p.test)[:120]}`: a differently shaped expression would be read as symbol+addend / symbol-symbol")
    t = " ".join(src(me.node).split())
    ctx.check("return gtirb.SymAddrAddr(1, 0, sym1, sym2, set())" in t, me, me.node, "symbol difference -> SymAddrAddr(scale 1, offset 0, lhs, rhs)", "SymAddrAddr construction changed")
    pp = repo.func(ST + "_prevent_print_as_string")
    lin = linear(pp.node)
    inc = [g for g in lin.stmts if isinstance(g.node, ast.AugAssign) and src(g.node.target) == "self._prevent_print_as_string_count"]
    ok = len(inc) == 2 and isinstance(inc[0].node.op, ast.Add) and isinstance(inc[1].node.op, ast.Sub) and inc[1].in_finally and not inc[0].in_finally and src(inc[0].node.value) == src(inc[1].node.value) == "1"
    ctx.check(ok, pp, pp.node, "the print-as-string guard counter is raised before and lowered (in finally) after", "counter pairing changed: integer data would be typed as strings or strings lose their type")
    eb = repo.func(ST + "emit_bytes")
    t = " ".join(src(eb.node).split())
    le = linear(eb.node)
    asc = [g for g, c in le.all_calls() if src(c) == "self._emit_value_with_encoding(state, data, Assembler.Result.DataType.ASCII)"]
    raw = [g for g, c in le.all_calls() if src(c) == "self._append_data(data, state.loc)"]
    # the ASCII arm may first try to extend the previous string block (one more condition); the raw arm has none
    ok = len(asc) == 1 and len(raw) == 1 and le.under(asc[0], "not self._prevent_print_as_string_count") and le.under(raw[0], "self._prevent_print_as_string_count") \
        and {a[0] for a in f_atoms(asc[0].guard)} <= {"self._prevent_print_as_string_count", "self._try_terminate_previous_ascii_block(state, data)", "data"} \
        and {a[0] for a in f_atoms(raw[0].guard)} <= {"self._prevent_print_as_string_count", "data"}   # `data`: nothing is emitted for an empty byte string (fix F98)
    ctx.check(ok, eb, eb.node, "string bytes get an ASCII-typed block, integer bytes are plain data", "emit_bytes dispatch changed")


@rule("C08.8", ["C08", "C12"], "every CFI callback of the assembler records its directive (or the procedure attribute) for the current procedure", 12)
def c08_8(ctx: Ctx):
    repo = ctx.repo
    attr = {"emit_cfi_lsda": "lsda", "emit_cfi_personality": "personality", "emit_cfi_return_column": "return_column"}
    n = 0
    for q, fi in sorted(repo.funcs.items()):
        if not q.startswith(ST + "emit_cfi_") or q.endswith(("_impl",)):
            continue
        name = fi.name
        n += 1
        if name in attr:
            ok = f"self._state.current_cfi_procedure.{attr[name]} =" in src(fi.node)
            ctx.check(ok, fi, fi.node, f"{name} sets the procedure's {attr[name]}", f"{attr[name]} of the current procedure is not recorded")
            continue
        directive = "." + name[len("emit_"):]
        calls = [c for c in calls_in(fi.node) if src(c.func) == "self._append_cfi_instruction"]
        ok = len(calls) == 1 and isinstance(calls[0].args[0], ast.Tuple) and isinstance(calls[0].args[0].elts[0], ast.Constant) and calls[0].args[0].elts[0].value == directive
        ctx.check(ok, fi, fi.node, f"{name} appends a `{directive}` directive",
                  f"{name} does not record `{directive}`: the directive written in the patch silently disappears from cfiDirectives (unwind state after the patch differs)")
        if ok:
            params = [a.arg for a in fi.params][2:]
            ops = calls[0].args[0].elts[1]
            got = [src(e) for e in ops.elts] if isinstance(ops, ast.List) else None
            if name == "emit_cfi_escape":
                ctx.check(src(ops) == "list(values)", fi, ops, "escape bytes are recorded verbatim", f"operands {src(ops)}")
            else:
                ctx.check(got == params, fi, ops, f"{name}: operands are the callback's arguments in order", f"operands {got} vs parameters {params}")
    if n < 12:
        raise AnalysisError(f"only {n} emit_cfi_* callbacks found")
    ap = repo.func(ST + "_append_cfi_instruction")
    t = " ".join(src(ap.node).split())
    ctx.check("self._state.current_cfi_procedure.instructions.setdefault(self._state.current_offset, []).append(inst)" in t, ap, ap.node,
              "directives are appended at the current (block, offset) in order", "recording changed")


@rule("C15.6", ["C15"], "rule/CFA value classes are immutable (they are shared between current, initial and saved rows)", 10)
def c15_6(ctx: Ctx):
    repo = ctx.repo
    mod = repo.mod("dwarf.cfi_eval")
    shared = []
    for name in ("RegisterRule", "CFARule"):
        v = mod.toplevel_assign(name)
        if v is None:
            raise AnalysisError(f"{name} union not found")
        shared += [src(e) for e in (v.slice.elts if isinstance(v, ast.Subscript) and isinstance(v.slice, ast.Tuple) else [])]
    shared.append("EncodedPointer")
    for cname in shared:
        c = repo.cls(f"dwarf.cfi_eval.{cname}")
        decs = [src(d).replace(" ", "") for d in c.node.decorator_list]
        ctx.check("dataclass(frozen=True)" in decs, mod, c.node, f"{cname} is a frozen dataclass",
                  f"{cname} is declared {decs}: copies of a state share these objects by reference, so mutating one would change yielded states", key=f"C15.6::{cname}")
    if len(shared) < 10:
        raise AnalysisError("rule classes not recognised")


@rule("C07.10", ["C07", "C01"], "scope defaults and the function filter of AllFunctionsScope", 5)
def c07_10(ctx: Ctx):
    repo = ctx.repo
    base = repo.cls("scopes.Scope")
    rl = base.methods["_replacement_length"]
    rets = [n for n in walk_no_nested(rl.node) if isinstance(n, ast.Return)]
    ctx.check(len(rets) == 1 and src(rets[0].value) == "0", rl, rl.node, "a plain insertion scope replaces 0 bytes",
              f"Scope._replacement_length returns {src(rets[0].value) if rets else '?'}: every scope-based insertion would delete original bytes")
    kt = base.methods["_known_targets"]
    ctx.check("return None" in src(kt.node), kt, kt.node, "generic scopes have no known targets", "changed")
    fm = repo.cls("scopes.AllFunctionsScope").methods["_block_matches"]
    v = single_assign_value(fm.node, "function_matches")
    if v is None:
        raise AnalysisError("AllFunctionsScope._block_matches: function_matches not found")
    for is_none, pm in itertools.product((True, False), repeat=2):
        env = {"self.functions": None if is_none else {"f"}, "pattern_match(module, func, self.functions)": pm}
        try:
            got = bool(minieval(v, env))
        except Unknown as exc:
            raise AnalysisError(f"function_matches not interpretable: {exc}")
        want = True if is_none else pm
        ctx.check(got == want, fm, v, f"function filter row (no filter={is_none}, pattern matches={pm})",
                  f"function_matches={got}, expected {want}", key=f"C07.10::fm::{is_none}{pm}")
    lin = linear(fm.node)
    r = [g for g in lin.stmts if isinstance(g.node, ast.Return) and lin.under(g, "not function_matches")]
    ctx.check(len(r) == 1 and src(r[0].node.value) == "False", fm, fm.node, "functions that do not match are skipped", "non-matching functions are no longer skipped")
    init = repo.cls("scopes.AllFunctionsScope").methods["__init__"]
    t = src(init.node)
    ctx.check(all(x in t for x in ("self.position = position", "self.block_position = block_position", "self.functions = functions")), init, init.node, "constructor stores position, block position and filter", "constructor changed")


@rule("C16.14", ["C16", "C17"], "the ARM64 caller-saved set covers every register AAPCS64 lets a callee change", 1)
def c16_14(ctx: Ctx):
    """AAPCS64: r0-r17 are call-clobbered (r16/r17 = IP0/IP1, written by every PLT stub and veneer), r30 by the call itself."""
    repo = ctx.repo
    m = repo.func("abi._ARM64_ELF.caller_saved_registers")
    names: Set[str] = set()
    for n in ast.walk(m.node):
        if isinstance(n, (ast.SetComp, ast.ListComp, ast.GeneratorExp)):
            gen = n.generators[0]
            if isinstance(gen.iter, ast.Call) and src(gen.iter.func) == "self._inclusive_range" and isinstance(n.elt, ast.Call) and n.elt.args and isinstance(n.elt.args[0], ast.JoinedStr):
                lo, hi = minieval(gen.iter.args[0], {}), minieval(gen.iter.args[1], {})
                prefix = "".join(v.value for v in n.elt.args[0].values if isinstance(v, ast.Constant))
                names |= {f"{prefix}{i}" for i in range(lo, hi + 1)}
    for c in calls_in(m.node, nested=True):
        if src(c.func) == "self.get_register" and c.args and isinstance(c.args[0], ast.Constant):
            names.add(c.args[0].value)
    if len(names) < 10:
        raise AnalysisError(f"ARM64 caller-saved set not recognised: {sorted(names)}")
    w = {f"x{i}" for i in range(0, 18)} | {"x30"}
    ctx.check(w <= names, m, m.node, "x0-x17 and x30 are in the set",
              f"{sorted(w - names)} are call-clobbered under AAPCS64 but not in the set: a patch with preserve_caller_saved_registers=True (the CallPatch default) returns with them changed",
              key="C16.8::cs-abi::_ARM64_ELF")
