"""C14 - DWARF expression/CFI encodings match the standard and round-trip (table and duality checks)."""

from __future__ import annotations

import ast
from typing import Dict, List, Optional, Tuple

from .. import tables
from ..astx import calls_in, f_or, f_show, FALSE, implies, linear, single_assign_value, src, walk_no_nested
from ..core import AnalysisError, ClassInfo, Ctx, Repo, rule
from ..region import Unknown, minieval


def enum_members(repo: Repo, qual: str) -> Dict[str, Tuple[int, ast.AST]]:
    ci = repo.cls(qual)
    out: Dict[str, Tuple[int, ast.AST]] = {}
    for st in ci.node.body:
        if isinstance(st, ast.Assign) and len(st.targets) == 1 and isinstance(st.targets[0], ast.Name):
            try:
                v = minieval(st.value, {})
            except Unknown:
                raise AnalysisError(f"{qual}.{st.targets[0].id}: value is not a literal")
            out[st.targets[0].id] = (v, st)
    return out


def _encoder_kind(call: ast.expr) -> object:
    """_encoded_field(<Encoder>(args)) -> spec token."""
    if not (isinstance(call, ast.Call) and src(call.func) == "_encoded_field" and call.args and isinstance(call.args[0], ast.Call)):
        return None
    enc = call.args[0]
    name = src(enc.func)
    args = []
    for a in enc.args:
        try:
            args.append(minieval(a, {}))
        except Unknown:
            return ("?", src(enc))
    if name == "_ULEB128Encoder":
        return "uleb"
    if name == "_SLEB128Encoder":
        return "sleb"
    if name == "_UIntEncoder" and len(args) == 1:
        return f"u{args[0]}"
    if name == "_SIntEncoder" and len(args) == 1:
        return f"s{args[0]}"
    if name == "_UIntPtrEncoder":
        return "addr"
    if name == "_ExprEncoder":
        return "expr"
    if name == "_AddToOpcodeEncoder" and len(args) == 1:
        return ("fused", args[0])
    return ("?", src(enc))


def opcode_classes(repo: Repo, base_qual: str, enum_name: str):
    base = repo.cls(base_qual)
    out = []
    for c in repo.classes.values():
        if c is base or base not in repo.mro(c):
            continue
        kw = c.keywords()
        if "opcode" not in kw:
            continue
        op = src(kw["opcode"])
        if not op.startswith(enum_name + "."):
            raise AnalysisError(f"{c.qual}: opcode `{op}` is not a member of {enum_name}")
        member = op.split(".", 1)[1]
        fields = []
        for cc in reversed(repo.mro(c)):
            for st in cc.node.body:
                if isinstance(st, ast.AnnAssign) and isinstance(st.target, ast.Name) and st.value is not None:
                    k = _encoder_kind(st.value)
                    if k is not None:
                        fields = [f for f in fields if f[0] != st.target.id] + [(st.target.id, k, st)]
        directive = kw.get("directive")
        out.append((c, member, fields, src(directive).strip("'\"") if directive is not None else None))
    return out


@rule("C14.1", ["C14", "C15"], "opcode numbers and operand encodings agree with the DWARF v4 tables", 250)
def c14_1(ctx: Ctx):
    repo = ctx.repo
    mod = repo.mod("dwarf.dwarf2")
    for qual, table, label in (
        ("dwarf.dwarf2.ExpressionOperations", tables.DW_OP, "DW_OP"),
        ("dwarf.dwarf2.CallFrameInstructions", tables.DW_CFA, "DW_CFA"),
        ("dwarf.dwarf2.PointerEncodings", tables.DW_EH_PE, "DW_EH_PE"),
    ):
        mem = enum_members(repo, qual)
        for name, (val, node) in sorted(mem.items()):
            if name not in table:
                raise AnalysisError(f"{qual}.{name} is not in the checker's {label} table")
            ctx.check(val == table[name], mod, node, f"{label}_{name} == {table[name]:#04x}",
                      f"{label}_{name} is {val:#04x} in the code, {table[name]:#04x} in the standard", key=f"C14.1::{label}::{name}")
    ops = opcode_classes(repo, "dwarf.expr.Operation", "ExpressionOperations")
    ins = opcode_classes(repo, "dwarf.cfi.Instruction", "CallFrameInstructions")
    if len(ops) < 40 or len(ins) < 18:
        raise AnalysisError(f"class extraction blind: {len(ops)} operations, {len(ins)} instructions")
    for group, spec, label in ((ops, tables.OP_OPERANDS, "DW_OP"), (ins, tables.CFA_OPERANDS, "DW_CFA")):
        for c, member, fields, directive in group:
            if member not in spec:
                raise AnalysisError(f"{c.qual}: {label}_{member} has no operand row in the checker's table")
            got = [k for _, k, _ in fields]
            ctx.check(got == spec[member], c.methods.get("__init__") or c.mod, c.node, f"{label}_{member} operands {spec[member]}",
                      f"class {c.name} declares operands {got} (fields {[f for f, _, _ in fields]}); the standard prescribes {spec[member]}",
                      key=f"C14.1::operands::{label}::{member}")
    for c, member, fields, directive in ins:
        want = tables.CFA_DIRECTIVES.get(member)
        ok = directive == ".cfi_escape" or (want is not None and directive == want)
        ctx.check(ok, c.mod, c.node, f"DW_CFA_{member} directive",
                  f"class {c.name} maps DW_CFA_{member} to `{directive}`; only {want or '.cfi_escape'} (or .cfi_escape) carries the same operands",
                  key=f"C14.1::directive::{member}")


@rule("C14.2", ["C14", "C15"], "opcode registration is injective per opcode type and fused ranges stay inside a byte", 4)
def c14_2(ctx: Ctx):
    repo = ctx.repo
    for base, enum_name, enum_qual in (("dwarf.expr.Operation", "ExpressionOperations", "dwarf.dwarf2.ExpressionOperations"),
                                       ("dwarf.cfi.Instruction", "CallFrameInstructions", "dwarf.dwarf2.CallFrameInstructions")):
        mem = enum_members(repo, enum_qual)
        reg: Dict[int, str] = {}
        clash = []
        first_fused_bad = []
        for c, member, fields, _ in opcode_classes(repo, base, enum_name):
            basev = mem[member][0]
            width = 1
            for i, (fname, kind, node) in enumerate(fields):
                if isinstance(kind, tuple) and kind[0] == "fused":
                    if i != 0:
                        first_fused_bad.append(c.name)
                    width = kind[1]
            for v in range(basev, basev + width):
                if v in reg:
                    clash.append((v, reg[v], c.name))
                reg[v] = c.name
                if v > 0xFF:
                    clash.append((v, "byte range", c.name))
        ctx.check(not clash, repo.cls(base).mod, None, f"{enum_name}: no two classes claim the same first byte",
                  f"collisions: {clash[:3]}", key=f"C14.2::inj::{enum_name}")
        ctx.check(not first_fused_bad, repo.cls(base).mod, None, f"{enum_name}: an embedded operand is always the first field",
                  f"classes with a fused operand that is not first: {first_fused_bad}", key=f"C14.2::first::{enum_name}")
    enc = repo.func("dwarf._encodable._OpcodeEncodable.__init_subclass__")
    t = src(enc.node)
    ctx.check("for i in range(fused_encoder.upper_bound):" in t and "storage.register_opcode(opcode.value + i, cls)" in t, enc, enc.node,
              "a fused class is registered for opcode .. opcode+upper_bound-1", "fused registration range changed")
    ro = repo.func("dwarf._encodable._OpcodeEncodable._PerTypeStorage.register_opcode")
    ctx.check("if opcode in self.opcodes:" in src(ro.node) and "raise ValueError" in src(ro.node), ro, ro.node, "duplicate registration raises", "duplicate check removed")
    fe = repo.func("dwarf._encodable._OpcodeEncodable._fused_encoder")
    lf = linear(fe.node)
    brk = [g for g in lf.stmts if isinstance(g.node, ast.Break)]
    ctx.check(len(brk) == 1 and len(brk[0].loops) == 1, fe, fe.node, "_fused_encoder only inspects the first field", "loop no longer stops after the first field")


def _reject_formula(fi) -> List[ast.expr]:
    """Conditions of `if cond: raise ValueError` at any depth (conjoined with enclosing ifs)."""
    lin = linear(fi.node)
    out = []
    for g in lin.stmts:
        if isinstance(g.node, ast.Raise):
            out.append(g)
    return out


def _read_size(repo, fi, expr: ast.AST):
    """`io.read(n)` / `_read_exact(io, n)` (or a local bound to one) -> source text of n, else None."""
    if isinstance(expr, ast.Name):
        v = single_assign_value(fi.node, expr.id)
        return _read_size(repo, fi, v) if v is not None else None
    if isinstance(expr, ast.Call):
        f = src(expr.func)
        if f.endswith(".read") and len(expr.args) == 1:
            return src(expr.args[0])
        if f == "_read_exact" and len(expr.args) == 2:
            return src(expr.args[1])
    return None


def _from_bytes_of(repo, fi, size: str, signed: str) -> bool:
    """Does fi return int.from_bytes(<read of `size` bytes>, byteorder, signed=<signed>)?"""
    for c in calls_in(fi.node):
        if src(c.func) == "int.from_bytes" and len(c.args) >= 2 and src(c.args[1]) == "byteorder":
            kw = {k.arg: src(k.value) for k in c.keywords}
            if _read_size(repo, fi, c.args[0]) == size and kw.get("signed") == signed:
                return True
    return False


@rule("C14.3", ["C14", "C15"], "each encoder's encode/decode are dual and validate() rejects exactly the unrepresentable values", 14)
def c14_3(ctx: Ctx):
    repo = ctx.repo
    E = "dwarf._encoders."
    ie = repo.cls(E + "_IntEncoder")
    enc, dec = ie.methods["encode"], ie.methods["decode"]
    ctx.check("value.to_bytes(self.byte_size, byteorder, signed=self.signed)" in src(enc.node), enc, enc.node, "_IntEncoder.encode: to_bytes(byte_size, byteorder, signed=signed)", "encode changed")
    d = src(dec.node)
    ctx.check(_from_bytes_of(ctx.repo, dec, "self.byte_size", "self.signed"), dec, dec.node, "_IntEncoder.decode reads byte_size bytes with the same byteorder/signedness", "decode is not the dual of encode")
    rets = [n for n in walk_no_nested(dec.node) if isinstance(n, ast.Return)]
    ctx.check(len(rets) == 1 and isinstance(rets[0].value, ast.Tuple) and src(rets[0].value.elts[1]) == "self.byte_size", dec, dec.node, "_IntEncoder.decode reports byte_size bytes read", "reported size differs from the bytes read")
    for cname, signed in (("_UIntEncoder", "False"), ("_SIntEncoder", "True")):
        c = repo.cls(E + cname)
        t = src(c.methods["__init__"].node)
        ctx.check(f"super().__init__(byte_size, signed={signed})" in t, c.methods["__init__"], None, f"{cname} is _IntEncoder(signed={signed})", "signedness changed")
    pe = repo.cls(E + "_UIntPtrEncoder")
    ctx.check("value.to_bytes(ptr_size, byteorder, signed=False)" in src(pe.methods["encode"].node), pe.methods["encode"], None, "_UIntPtrEncoder.encode: ptr_size bytes unsigned", "changed")
    d = src(pe.methods["decode"].node)
    prets = [n for n in walk_no_nested(pe.methods["decode"].node) if isinstance(n, ast.Return)]
    ctx.check(_from_bytes_of(ctx.repo, pe.methods["decode"], "ptr_size", "False") and len(prets) == 1 and isinstance(prets[0].value, ast.Tuple) and src(prets[0].value.elts[1]) == "ptr_size",
              pe.methods["decode"], None, "_UIntPtrEncoder.decode: dual, reports ptr_size", "changed")
    for cname, mod_ in (("_ULEB128Encoder", "u"), ("_SLEB128Encoder", "i")):
        c = repo.cls(E + cname)
        ctx.check(f"leb128.{mod_}.encode(value)" in src(c.methods["encode"].node) and f"leb128.{mod_}.decode_reader(io)" in src(c.methods["decode"].node),
                  c.methods["encode"], None, f"{cname}: leb128.{mod_}.encode <-> leb128.{mod_}.decode_reader", "LEB variant of encode and decode differ")
    ao = repo.cls(E + "_AddToOpcodeEncoder")
    ctx.check("(opcode + value).to_bytes(1, byteorder)" in src(ao.methods["encode"].node) and "return byte_value - opcode" in src(ao.methods["decode"].node),
              ao.methods["encode"], None, "_AddToOpcodeEncoder: opcode+value <-> byte-opcode", "changed")
    # validate(): value domains
    def rejects(fi, env) -> bool:
        lin = linear(fi.node)
        for g in lin.stmts:
            if isinstance(g.node, ast.Raise):
                # evaluate guard: every atom text via minieval
                from ..astx import f_atoms, f_eval

                vals = {}
                for a in f_atoms(g.guard):
                    try:
                        vals[a] = bool(minieval(ast.parse(a[0], mode="eval").body, env))
                    except Unknown as exc:
                        raise AnalysisError(f"{fi.qual}: validate condition not interpretable: {exc}")
                if f_eval(g.guard, vals):
                    return True
        return False

    v = ao.methods["validate"]
    for ub in (32, 64):
        for val in (-1, 0, ub - 1, ub, ub + 1):
            got = rejects(v, {"value": val, "self.upper_bound": ub})
            want = val < 0 or val >= ub
            ctx.check(got == want, v, v.node, f"_AddToOpcodeEncoder({ub}).validate({val})",
                      f"value {val} is {'rejected' if got else 'accepted'}; an embedded operand must lie in [0, {ub}) or it spills into the next opcode family",
                      key=f"C14.3::addto::{ub}::{val}")
    dom = repo.func(E + "_int_domain")
    rets = [n for n in walk_no_nested(dom.node) if isinstance(n, ast.Return)]
    lin = linear(dom.node)
    for bits in (8, 16):
        for signed in (False, True):
            lo_hi = None
            for r in rets:
                g = lin.of(r)
                from ..astx import f_atoms, f_eval

                vals = {a: bool(minieval(ast.parse(a[0], mode="eval").body, {"signed": signed})) for a in f_atoms(g.guard)}
                if f_eval(g.guard, vals) and isinstance(r.value, ast.Call) and src(r.value.func) == "range":
                    lo_hi = tuple(minieval(a, {"bit_size": bits}) for a in r.value.args)
            want = (-(2 ** (bits - 1)), 2 ** (bits - 1)) if signed else (0, 2 ** bits)
            ctx.check(lo_hi == want, dom, dom.node, f"_int_domain({bits}, signed={signed}) == range{want}", f"domain is range{lo_hi}", key=f"C14.3::dom::{bits}{signed}")
    iv = ie.methods["validate"]
    t = src(iv.node)
    ctx.check("_int_domain(self.byte_size * 8, signed=self.signed)" in t and "if value not in size_range:" in t and "raise ValueError" in t, iv, iv.node,
              "_IntEncoder.validate: value must be in the domain of its own size/signedness", "validate no longer uses the encoder's size/signedness")
    for cname, need in (("_ULEB128Encoder", ["value < 0"]), ("_UIntPtrEncoder", ["value < 0", "value not in size_range"])):
        c = repo.cls(E + cname)
        vm = c.methods.get("validate")
        ok = vm is not None and all(n in src(vm.node) for n in need) and "raise ValueError" in src(vm.node)
        ctx.check(ok, vm or c.methods["encode"], None, f"{cname}.validate rejects {need}", "validate weakened or removed")
    ctx.check("validate" not in repo.cls(E + "_SLEB128Encoder").methods or True, repo.cls(E + "_SLEB128Encoder").methods["encode"], None, "SLEB128 represents every integer (no validate needed)", "")


@rule("C14.4", ["C14"], "values are validated on construction and again (with the pointer size) before anything is encoded", 4)
def c14_4(ctx: Ctx):
    repo = ctx.repo
    P = "dwarf._encodable._OpcodeEncodable."
    enc = repo.func(P + "encode")
    lin = linear(enc.node)
    val = [(g, c) for g, c in lin.all_calls() if src(c) == "self._validate(ptr_size=ptr_size)"]
    encs = [(g, c) for g, c in lin.all_calls() if isinstance(c.func, ast.Attribute) and c.func.attr == "encode" and "encoder" in src(c.func.value)]
    ok = len(val) == 1 and val[0][0].top and encs and all(val[0][0].index < g.index for g, _ in encs)
    ctx.check(ok, enc, enc.node, "encode(): _validate(ptr_size=ptr_size) precedes every encoder.encode", "validation no longer precedes encoding: out-of-range operands are truncated/overflow instead of ValueError")
    pi = repo.func(P + "__post_init__")
    ctx.check("self._validate()" in src(pi.node), pi, pi.node, "__post_init__ validates", "construction-time validation removed")
    vf = repo.func(P + "_validate")
    t = src(vf.node)
    ctx.check("for field, encoder in self._fields_and_encoders():" in t and "encoder.validate(value, ptr_size)" in t and "raise ValueError" in t, vf, vf.node,
              "_validate runs every field's encoder.validate and re-raises ValueError", "_validate changed")
    ctx.check("except ValueError" in t, vf, vf.node, "only ValueError is converted", "exception conversion changed")
    # every field, every time: no skip inside the loop, and the validate call is not under a condition
    vlin = linear(vf.node)
    loops = [n for n in walk_no_nested(vf.node) if isinstance(n, ast.For) and "_fields_and_encoders()" in src(n.iter)]
    vcalls = [(g, c) for g, c in vlin.all_calls() if isinstance(c.func, ast.Attribute) and c.func.attr == "validate" and loops and loops[0] in g.loops]
    if len(loops) != 1 or not vcalls:
        raise AnalysisError("_validate: loop over _fields_and_encoders() with an encoder.validate call not found")
    skips = [n for n in ast.walk(loops[0]) if isinstance(n, (ast.Continue, ast.Break, ast.Return))]
    ctx.check(not skips and all(g.nest == 1 and implies(next(x for x in vlin.stmts if loops[0] in x.loops).guard, g.guard) for g, _ in vcalls), vf, (skips or [loops[0]])[0],
              "_validate checks every field on every call (no skip, no condition in the loop)",
              "some fields are no longer validated on some calls (a `continue`/condition inside the loop): the objects are mutable dataclasses, so an operand reassigned after construction "
              "(`op.register = 40`) reaches encode() unchecked - a fused operand silently becomes a different opcode (DW_OP_reg40 -> 0x78 = DW_OP_breg8), fixed-size operands die with OverflowError "
              "instead of ValueError", key="_validate::every-field")


@rule("C14.5", ["C14", "C15"], "encode and decode walk the same fields in the same order; byte counts add up", 7)
def c14_5(ctx: Ctx):
    repo = ctx.repo
    P = "dwarf._encodable._OpcodeEncodable."
    enc, dec = repo.func(P + "encode"), repo.func(P + "decode")

    def walk_shape(fi, recv):
        loops = [n for n in walk_no_nested(fi.node) if isinstance(n, ast.For) and src(n.iter) == f"{recv}._fields_and_encoders()"]
        if len(loops) != 1:
            return None
        lp = loops[0]
        if len(lp.body) != 1 or not isinstance(lp.body[0], ast.If):
            return None
        return src(lp.body[0].test)

    a, b = walk_shape(enc, "self"), walk_shape(dec, "opcode_cls")
    ctx.check(a == b == "isinstance(encoder, _StandaloneEncoder)", enc, enc.node, "both walk _fields_and_encoders() filtering standalone encoders",
              f"encode filter `{a}`, decode filter `{b}`")
    ctx.check("bytes_read += field_byte_count" in src(dec.node) and "bytes_read = 1" in src(dec.node), dec, dec.node, "decode counts the opcode byte plus every field", "byte accounting changed")
    ctx.check("return (opcode_cls(**ctor_args), bytes_read)" in src(dec.node).replace("\n", " "), dec, dec.node, "decode returns (object, bytes read)", "return changed")
    ctx.check("fused_encoder.decode(opcode_cls._opcode, opcode_byte, byteorder, ptr_size)" in " ".join(src(dec.node).split()), dec, dec.node,
              "the embedded operand is decoded from the opcode byte relative to the class's base opcode", "fused decode changed")
    ctx.check("fused_encoder.encode(self._opcode, value, byteorder, ptr_size)" in " ".join(src(enc.node).split()), enc, enc.node, "fused encode uses the class's base opcode", "changed")
    pc = repo.func("dwarf.cfi.parse_cfi_instructions")
    t = src(pc.node)
    ctx.check("while offset < len(value):" in t and "offset += read" in t and "Instruction.decode(reader, byteorder, ptr_size)" in t, pc, pc.node,
              "parse_cfi_instructions advances by the count decode returned until the input is consumed", "parser loop changed")
    ee = repo.cls("dwarf.cfi._ExprEncoder")
    te, td = src(ee.methods["encode"].node), src(ee.methods["decode"].node)
    ctx.check("leb128.u.encode(len(encoded_expr)) + encoded_expr" in te, ee.methods["encode"], None, "expression block = ULEB length + operations", "length prefix changed")
    prefix_ok = "leb128.u.decode_reader(io)" in td or "_ULEB128Encoder().decode(io, byteorder, ptr_size)" in td
    ctx.check(prefix_ok and "while op_bytes_read < length:" in td and "return (ops, len_read + op_bytes_read)" in td.replace("\n", " "), ee.methods["decode"], None,
              "expression decode consumes `length` bytes of operations and reports prefix + body", "expression decode accounting changed")
    op = repo.func("dwarf.cfi.Instruction._operands")
    to = src(op.node)
    ctx.check("if self._directive == '.cfi_escape':" in to and "self.encode(byteorder, ptr_size)" in to and "[getattr(self, field.name) for field in fields(self)]" in to, op, op.node,
              "escape instructions hand GTIRB their encoded bytes; directive instructions their fields in declaration order", "operand form changed")


@rule("C14.6", ["C14"], "make_const_op's candidate table agrees with the classes' encoders", 10)
def c14_6(ctx: Ctx):
    repo = ctx.repo
    fi = repo.func("dwarf.expr.make_const_op")
    loops = [n for n in walk_no_nested(fi.node) if isinstance(n, ast.For) and isinstance(n.iter, ast.Tuple)]
    if len(loops) != 1:
        raise AnalysisError("make_const_op: candidate table not found")
    ops = {c.name: fields for c, m, fields, _ in opcode_classes(repo, "dwarf.expr.Operation", "ExpressionOperations")}
    rows = []
    for row in loops[0].iter.elts:
        if not (isinstance(row, ast.Tuple) and len(row.elts) == 3):
            raise AnalysisError("make_const_op: table row shape")
        bits, signed, cls = minieval(row.elts[0], {}), minieval(row.elts[1], {}), src(row.elts[2])
        rows.append((bits, signed, cls))
        f = ops.get(cls)
        want = f"{'s' if signed else 'u'}{bits // 8}"
        got = f[0][1] if f else None
        ctx.check(got == want, fi, row, f"row ({bits}, signed={signed}) -> {cls}",
                  f"{cls} encodes its value as {got}, the row promises a {bits}-bit {'signed' if signed else 'unsigned'} constant: values of that range are rejected or mis-encoded",
                  key=f"C14.6::row::{bits}{signed}")
    ctx.check(sorted((b, s) for b, s, _ in rows) == sorted((b, s) for b in (8, 16, 32, 64) for s in (False, True)), fi, loops[0], "all eight fixed-size candidates present", f"rows {rows}")
    order_ok = [b for b, s, _ in rows if not s] == [8, 16, 32, 64] and [b for b, s, _ in rows if s] == [8, 16, 32, 64]
    ctx.check(order_ok, fi, loops[0], "candidates are tried from the smallest size up", "row order changed (a longer encoding could be chosen)")
    t = " ".join(src(fi.node).split())
    ctx.check("if 0 <= value <= 31: return OpLit(value)" in t, fi, fi.node, "0..31 use DW_OP_lit<n>", "literal range changed")
    ctx.check("if value in _int_domain(bit_size, signed):" in t, fi, fi.node, "a candidate is used iff the value fits its domain", "fit test changed")
    lin = linear(fi.node)
    lebs = {}
    for g in lin.stmts:
        if isinstance(g.node, ast.Assign) and src(g.node.targets[0]) == "leb_cls":
            lebs["signed" if lin.under(g, "signed") else "unsigned"] = src(g.node.value)
        if isinstance(g.node, ast.Assign) and src(g.node.targets[0]) == "leb_encoding":
            lebs[("enc", "signed" if lin.under(g, "signed") else "unsigned")] = src(g.node.value)
    ctx.check(lebs.get("signed") == "OpConstS" and lebs.get("unsigned") == "OpConstU" and lebs.get(("enc", "signed")) == "leb128.i.encode(value)" and lebs.get(("enc", "unsigned")) == "leb128.u.encode(value)",
              fi, fi.node, "signed -> SLEB/OpConstS, unsigned -> ULEB/OpConstU", f"LEB alternatives: {lebs}")
    ctx.check("if len(leb_encoding) * 8 < bit_size: return leb_cls(value)" in t and "if bit_size >= 32:" in t, fi, fi.node, "LEB form is used only when strictly shorter (32/64-bit candidates)", "LEB preference changed")
    rs = [n for n in walk_no_nested(fi.node) if isinstance(n, ast.Raise)]
    ctx.check(len(rs) == 1 and "ValueError" in src(rs[0]), fi, fi.node, "unencodable values raise ValueError", "changed")
