"""
Interpretive (ungated) lints and a few mechanism obligations written from the misses of round 8 - changes that need
something specific to manifest, several of them two cooperating sites that each look fine alone.  Every lint here
judges whatever code it finds (no reference shape), is silent on today's tree, and proves on every run - through the
positive fixtures appended to round7's fixture module - that it still recognises the construct it was written for.
DESIGN.md section 10.9.
"""

from __future__ import annotations

import ast
from typing import Dict, List, Optional, Set, Tuple

from ..astx import calls_in, implies, linear, src, walk_no_nested
from ..core import ALL_PROPS, AnalysisError, Ctx, rule
from . import round7

# ----------------------------------------------------------------------------
# members of a tagged union are told apart with isinstance(): no member may be a subclass of another
# ----------------------------------------------------------------------------


def _union_members(e: ast.AST) -> Optional[List[ast.AST]]:
    if isinstance(e, ast.Subscript) and src(e.value) in ("Union", "typing.Union"):
        sl = e.slice
        return list(sl.elts) if isinstance(sl, ast.Tuple) else [sl]
    return None


@rule("GEN.uniondisjoint", ALL_PROPS, "the alternatives of a Union of package classes are pairwise unrelated classes (isinstance dispatch on one never also accepts another)", 1, scoped=True)
def gen_uniondisjoint(ctx: Ctx):
    repo = ctx.repo
    n = 0
    for mname, mod in sorted(repo.mods.items()):
        for node in ast.walk(mod.tree):
            ms = _union_members(node)
            if not ms:
                continue
            cls = []
            for m in ms:
                name = src(m).strip("\"'")
                if name.startswith(("Type[", "Optional[")):
                    continue
                ci = repo.resolve_class_name(mod, name)
                if ci is not None:
                    cls.append(ci)
            if len(cls) < 2:
                continue
            n += 1
            bad = [(a, b) for a in cls for b in cls if a is not b and a in repo.mro(b)]
            fi = None
            ctx.check(not bad, mod, node, f"Union[{', '.join(c.name for c in cls)}]: alternatives are unrelated classes",
                      (f"`{bad[0][1].name}` is a subclass of `{bad[0][0].name}` and both are alternatives of one Union: every `isinstance(x, {bad[0][0].name})` that is meant to select the "
                       f"`{bad[0][0].name}` alternative now also accepts a `{bad[0][1].name}` (a refusal such as `if not isinstance(rule, {bad[0][0].name}): raise` lets the other kind through and "
                       "its fields are then read with the wrong meaning)") if bad else "",
                      key=f"{mname}::union::{'|'.join(sorted(c.name for c in cls))}")
    ctx.ok(repo.mod("rewriting"), None, f"{n} unions of package classes examined", nontrivial=False, key="GEN.uniondisjoint::scan")
    if n < 2 and "fixture" not in repo.mods:
        raise AnalysisError(f"only {n} unions of package classes found (RegisterRule, CFARule expected)")


round7._FIXTURE += '''

from typing import Union

class RuleA:
    offset: int

class RuleB(RuleA):
    pass

class RuleC:
    pass

AnyRule = Union[RuleA, RuleB, RuleC]
'''
round7._FIXTURE_EXPECT["GEN.uniondisjoint"] = "RuleA|RuleB|RuleC"


# ----------------------------------------------------------------------------
# C16: what the ABI sees is what the patch declared
# ----------------------------------------------------------------------------


@rule("C16.16", ["C16", "C17"], "the declared constraints of a patch reach the ABI unmodified: nothing in the package assigns a field of a Constraints object", 6)
def c16_16(ctx: Ctx):
    repo = ctx.repo
    ci = repo.cls("assembly.Constraints")
    fields = [st.target.id for st in ci.node.body if isinstance(st, ast.AnnAssign) and isinstance(st.target, ast.Name)]
    if len(fields) < 6 or "clobbers_registers" not in fields or "reads_registers" not in fields:
        raise AnalysisError(f"Constraints: fields not recognised ({fields})")
    stores = 0
    for q, fi in sorted(repo.funcs.items()):
        for n in walk_no_nested(fi.node):
            tgts = []
            if isinstance(n, ast.Assign):
                tgts = n.targets
            elif isinstance(n, (ast.AugAssign, ast.AnnAssign)):
                tgts = [n.target]
            for t in tgts:
                for a in ast.walk(t):
                    if isinstance(a, ast.Attribute) and isinstance(a.ctx, ast.Store):
                        stores += 1
                        if a.attr in fields and a.attr not in ("x86_syntax",):
                            # a field of the same name on an unrelated class (`self.scratch_registers` of a result record) is not a Constraints store
                            owner = fi.cls
                            unrelated = isinstance(a.value, ast.Name) and a.value.id == "self" and owner is not None and owner is not ci and ci not in repo.mro(owner)
                            if unrelated:
                                continue
                            # `self.F = set(self.F)`: a container normalisation of the same field keeps the declaration
                            v = getattr(n, "value", None)
                            if isinstance(n, ast.Assign) and isinstance(v, ast.Call) and isinstance(v.func, ast.Name) and v.func.id in ("set", "frozenset", "list", "tuple", "bool", "int") \
                                    and len(v.args) == 1 and not v.keywords and src(v.args[0]) == src(a):
                                continue
                            ctx.fail(fi, n, f"`{src(t)} = ...` rewrites a declared constraint",
                                     f"`{src(n)[:90]}`: the ABI derives the save/restore list, the scratch pool and the red-zone/alignment decisions from the Constraints object; a patch that lists "
                                     "a register both as read on entry and as clobbered (it reads it, then overwrites it) must still get it saved - a constraint edited after the patch declared it "
                                     "(`clobbers - reads`) is no longer restored", key=f"{q}::constraint-store::{a.attr}")
    for f in fields:
        ctx.ok(ci.mod, ci.node, f"Constraints.{f}: no store in the package", key=f"Constraints::{f}", nontrivial=True)
    if stores < 150:
        raise AnalysisError(f"only {stores} attribute stores scanned")


# ----------------------------------------------------------------------------
# a container handed over whole is not emptied afterwards (alias, then clear)
# ----------------------------------------------------------------------------

_DESTRUCTIVE = ("clear", "pop", "popitem", "remove", "discard")


def _whole_stores(fn: ast.AST, name: str) -> List[ast.stmt]:
    """Statements that make the object bound to `name` reachable from another container/attribute, unchanged."""
    out = []
    for st in walk_no_nested(fn):
        if isinstance(st, ast.Assign) and isinstance(st.value, ast.Name) and st.value.id == name:
            if any(isinstance(t, (ast.Subscript, ast.Attribute)) for t in st.targets):
                out.append(st)
        elif isinstance(st, ast.Expr) and isinstance(st.value, ast.Call) and isinstance(st.value.func, ast.Attribute) and st.value.func.attr in ("append", "add", "setdefault", "insert"):
            if any(isinstance(a, ast.Name) and a.id == name for a in st.value.args):
                out.append(st)
    return out


@rule("GEN.aliasclear", ALL_PROPS, "a container that was stored whole into another container is not emptied afterwards through its old name", 1, scoped=True)
def gen_aliasclear(ctx: Ctx):
    n = 0
    for q, fi in sorted(ctx.repo.funcs.items()):
        fn = fi.node
        muts: Dict[str, List[ast.Call]] = {}
        for c in calls_in(fn):
            if isinstance(c.func, ast.Attribute) and c.func.attr in ("clear",) and isinstance(c.func.value, ast.Name) and not c.args:
                muts.setdefault(c.func.value.id, []).append(c)
        if not muts:
            continue
        lin = linear(fn)
        for name, cs in sorted(muts.items()):
            stores = _whole_stores(fn, name)
            n += 1
            for st in stores:
                try:
                    gs = lin.of(st)
                except AnalysisError:
                    continue
                for c in cs:
                    try:
                        gc = lin.of(c)
                    except AnalysisError:
                        continue
                    # the clear comes later on a path that also ran the store (same iteration if both are in a loop), and the name was not re-bound in between
                    from ..astx import satisfiable, f_and

                    rebound = any(isinstance(x.node, ast.Assign) and any(isinstance(t, ast.Name) and t.id == name for t in x.node.targets) and gs.index < x.index < gc.index for x in lin.stmts)
                    # a store in a branch that ends in raise/return never reaches a clear outside that branch
                    dead_end = False
                    for owner in ast.walk(fn):
                        for fld in ("body", "orelse", "finalbody"):
                            blk = getattr(owner, fld, None)
                            if isinstance(blk, list) and any(x is st for x in blk) and isinstance(blk[-1], (ast.Raise, ast.Return)) and not any(y is c for x in blk for y in ast.walk(x)):
                                dead_end = True
                        for h in getattr(owner, "handlers", []) or []:
                            if any(x is st for x in h.body) and isinstance(h.body[-1], (ast.Raise, ast.Return)) and not any(y is c for x in h.body for y in ast.walk(x)):
                                dead_end = True
                    if dead_end:
                        continue
                    if gs.index < gc.index and not rebound and satisfiable(f_and(gs.guard, gc.guard)) and tuple(gc.loops[: len(gs.loops)]) == tuple(gs.loops)[: len(gc.loops)]:
                        ctx.fail(fi, st, f"`{src(st)[:70]}` ... `{src(c)}`",
                                 f"`{name}` is stored as it is (`{src(st)[:70]}`) and then emptied through its old name (`{src(c)}`): the container that received it holds the same object and "
                                 "ends up empty - the entries it was meant to take over (symbolic expressions / offset-keyed aux data of a joined interval) vanish",
                                 key=f"{q}::aliasclear::{name}")
    ctx.ok(ctx.repo.mod("rewriting"), None, f"{n} cleared containers examined for an earlier whole store", nontrivial=False, key="GEN.aliasclear::scan")


# ----------------------------------------------------------------------------
# contradiction: one path re-keys a map by a shift, another hands the same map over unshifted
# ----------------------------------------------------------------------------


def _shift_sources(fn: ast.AST) -> Dict[str, Tuple[str, ast.AST]]:
    """name -> (shift expression text, node) for maps whose items are re-keyed as `k + E` / `E + k` / `k - E` in this function."""
    out: Dict[str, Tuple[str, ast.AST]] = {}

    def shifted(e: ast.AST, k: str) -> Optional[str]:
        if isinstance(e, ast.BinOp) and isinstance(e.op, (ast.Add, ast.Sub)):
            if isinstance(e.left, ast.Name) and e.left.id == k:
                return src(e.right)
            if isinstance(e.right, ast.Name) and e.right.id == k and isinstance(e.op, ast.Add):
                return src(e.left)
        return None

    def items_of(it: ast.AST) -> Optional[str]:
        if isinstance(it, ast.Call) and isinstance(it.func, ast.Attribute) and it.func.attr == "items" and isinstance(it.func.value, ast.Name):
            return it.func.value.id
        return None

    for n in ast.walk(fn):
        if isinstance(n, (ast.DictComp, ast.GeneratorExp, ast.ListComp)) and len(n.generators) == 1:
            g = n.generators[0]
            m = items_of(g.iter)
            if m and isinstance(g.target, ast.Tuple) and g.target.elts and isinstance(g.target.elts[0], ast.Name):
                k = g.target.elts[0].id
                key_e = n.key if isinstance(n, ast.DictComp) else (n.elt.elts[0] if isinstance(n.elt, ast.Tuple) and n.elt.elts else None)
                s = shifted(key_e, k) if key_e is not None else None
                if s:
                    out[m] = (s, n)
        if isinstance(n, ast.For):
            m = items_of(n.iter)
            if m and isinstance(n.target, ast.Tuple) and n.target.elts and isinstance(n.target.elts[0], ast.Name):
                k = n.target.elts[0].id
                for x in ast.walk(n):
                    s = shifted(x, k) if isinstance(x, ast.BinOp) else None
                    if s:
                        out[m] = (s, n)
                        break
    return out


@rule("GEN.rekeywhole", ALL_PROPS, "a map whose entries are re-keyed by a shift on one path is not handed over with its old keys on another (unless the shift is zero there)", 1, scoped=True)
def gen_rekeywhole(ctx: Ctx):
    n = 0
    for q, fi in sorted(ctx.repo.funcs.items()):
        fn = fi.node
        srcs = _shift_sources(fn)
        if not srcs:
            continue
        lin = linear(fn)
        for name, (shift, node) in sorted(srcs.items()):
            n += 1
            for st in walk_no_nested(fn):
                whole = None
                if isinstance(st, ast.Assign) and any(isinstance(t, ast.Subscript) for t in st.targets):
                    v = st.value
                    if isinstance(v, ast.Name) and v.id == name:
                        whole = st
                    elif isinstance(v, ast.Call) and isinstance(v.func, ast.Name) and v.func.id in ("dict", "OrderedDict") and len(v.args) == 1 and isinstance(v.args[0], ast.Name) and v.args[0].id == name:
                        whole = st
                elif isinstance(st, ast.Expr) and isinstance(st.value, ast.Call) and isinstance(st.value.func, ast.Attribute) and st.value.func.attr == "update" \
                        and len(st.value.args) == 1 and isinstance(st.value.args[0], ast.Name) and st.value.args[0].id == name:
                    whole = st
                if whole is None:
                    continue
                try:
                    g = lin.of(whole)
                except AnalysisError:
                    continue
                # zero shift on this path?  the guard must say so: `not <shift>` / `<shift> == 0`
                zero = False
                for cand in (f"not ({shift})", f"({shift}) == 0"):
                    try:
                        if lin.under(g, cand):
                            zero = True
                    except Exception:
                        pass
                if zero:
                    continue
                ctx.fail(fi, whole, f"`{src(whole)[:70]}` next to the re-keying by `{shift}`",
                         f"entries of `{name}` are re-keyed as `k + {shift}` elsewhere in this function, but `{src(whole)[:70]}` hands the map over with its old keys under a condition that does not "
                         f"make `{shift}` zero: offset-keyed entries (CFI directives, comments, expression sizes) of the absorbed block/interval land `{shift}` bytes too early",
                         key=f"{q}::rekeywhole::{name}")
    ctx.ok(ctx.repo.mod("rewriting"), None, f"{n} shift re-keyings examined for an unshifted hand-over of the same map", nontrivial=False, key="GEN.rekeywhole::scan")
    if n < 3 and "fixture" not in ctx.repo.mods:
        raise AnalysisError(f"only {n} shift re-keyings found (join_blocks, split_block, join_byte_intervals expected)")


round7._FIXTURE += '''

def merge(table, dst, src_key, delta):
    old = table.get(src_key, {})
    if dst in table:
        table[dst].update((k + delta, v) for k, v in old.items())
    else:
        table[dst] = old
    old.clear()
'''
round7._FIXTURE_EXPECT["GEN.aliasclear"] = "merge"
round7._FIXTURE_EXPECT["GEN.rekeywhole"] = "merge"


# ----------------------------------------------------------------------------
# mechanism obligations from round 8 (each interprets the code it finds; see core.UNGATED_RULES)
# ----------------------------------------------------------------------------


def _expanded(fn: ast.AST, e: ast.AST, depth: int = 3) -> str:
    """Source of `e` with single-assignment locals replaced by their defining expression (so `successor` is seen as what it is)."""
    from ..astx import single_assign_value

    if depth and isinstance(e, ast.Name):
        v = single_assign_value(fn, e.id)
        if v is not None and not isinstance(v, ast.Call):
            return _expanded(fn, v, depth - 1)
    return src(e)


@rule("C08.11", ["C08", "C02", "C05"], "remove_block decides removability and re-homes the required CFI directives with the same neighbours", 2)
def c08_11(ctx: Ctx):
    fi = ctx.repo.func("_modify.remove.remove_block")
    can = [c for c in calls_in(fi.node) if src(c.func) == "_can_remove_block"]
    rem = [c for c in calls_in(fi.node) if src(c.func) == "_remove_cfi_directives"]
    if len(can) != 1 or len(rem) != 1:
        raise AnalysisError("remove_block: _can_remove_block / _remove_cfi_directives calls not found once each")
    cdef = ctx.repo.func("_modify.remove._can_remove_block").node
    rdef = ctx.repo.func("_modify.remove._remove_cfi_directives").node

    def arg_for(call: ast.Call, fdef: ast.FunctionDef, pname: str) -> Optional[ast.AST]:
        names = [a.arg for a in fdef.args.args]
        if pname not in names:
            return None
        i = names.index(pname)
        if i < len(call.args):
            return call.args[i]
        return next((k.value for k in call.keywords if k.arg == pname), None)

    for pname in ("prev_block", "next_block"):
        a, b = arg_for(can[0], cdef, pname), arg_for(rem[0], rdef, pname)
        if a is None or b is None:
            raise AnalysisError(f"remove_block: argument `{pname}` of the two helpers not found")
        ea, eb = _expanded(fi.node, a), _expanded(fi.node, b)
        ctx.check(ea == eb, fi, rem[0], f"`{pname}`: _can_remove_block and _remove_cfi_directives are given the same block (`{ea[:50]}`)",
                  f"_can_remove_block judges with `{pname}` = `{ea[:60]}`, _remove_cfi_directives re-homes with `{eb[:60]}`: the block is found removable because a code neighbour can take its "
                  ".cfi_startproc/.cfi_endproc/.cfi_remember_state/.cfi_restore_state, but the re-homing is told there is no such neighbour and parks them on the block that is then removed - "
                  "surviving instructions fall out of their procedure (delete an entry block with retarget_to_proxy when no code precedes it)", key=f"remove_block::same-{pname}")


@rule("C05.14", ["C05", "C03", "C02"], "nothing in the package takes a proxy block out of module.proxies (an edge or a symbol retargeted onto it may still refer to it)", 5)
def c05_14(ctx: Ctx):
    n = 0
    for q, fi in sorted(ctx.repo.funcs.items()):
        for c in calls_in(fi.node):
            if isinstance(c.func, ast.Attribute) and src(c.func.value).endswith(".proxies"):
                n += 1
                ctx.check(c.func.attr not in ("discard", "remove", "pop", "clear", "difference_update"), fi, c, f"`{src(c)[:60]}` only adds",
                          f"`{src(c)[:80]}` removes a proxy from the module: proxies are shared - remove_block(retarget_to_proxy=True) moves *all* incoming edges and all symbols of the deleted "
                          "block onto one proxy, and input modules share one proxy between several return edges - so the CFG endpoint / symbol referent left behind is no longer part of the "
                          "module and the IR does not survive a protobuf round trip", key=f"{q}::proxies::{c.func.attr}")
        for st in walk_no_nested(fi.node):
            if isinstance(st, ast.AugAssign) and isinstance(st.op, ast.Sub) and src(st.target).endswith(".proxies"):
                n += 1
                ctx.fail(fi, st, f"`{src(st)[:60]}`", "proxies are removed from the module (see above)", key=f"{q}::proxies::isub")
    if n < 5:
        raise AnalysisError(f"only {n} uses of a proxies set found")


@rule("C12.18", ["C12", "C03"], "_split_block adds the fallthrough edge exactly when asked to; emit_label places every label's pre-created block", 4)
def c12_18(ctx: Ctx):
    from ..astx import equivalent

    fi = ctx.repo.func("assembler.assembler._Streamer._split_block")
    lin = linear(fi.node)
    adds = [(g, c) for g, c in lin.all_calls() if src(c.func).endswith("cfg.add") and "Fallthrough" in src(c)]
    if len(adds) != 1:
        raise AnalysisError("_split_block: fallthrough edge creation not found")
    want = lin.cond_at(adds[0][0], ast.parse("add_fallthrough", mode="eval").body)
    ctx.check(equivalent(adds[0][0].guard, want), fi, adds[0][1], "the fallthrough edge is added iff `add_fallthrough`",
              "the edge now needs more than the caller's request: `_emit_alignment` splits a block that holds only `.byte` data with add_fallthrough=True because execution continues into "
              "the aligned block; without the edge the block keeps its CodeBlock type but no successor, and an aligned `.byte` block behind it is converted to data in the middle of an "
              "executed path", key="_split_block::fallthrough-iff-asked")
    app = [(g, c) for g, c in lin.all_calls() if src(c.func).endswith("blocks.append")]
    ctx.check(len(app) == 1 and app[0][0].top, fi, fi.node, "the new block is always appended to the current section", "the append became conditional", key="_split_block::append")

    el = ctx.repo.func("assembler.assembler._Streamer.emit_label")
    elin = linear(el.node)
    place = [(g, c) for g, c in elin.all_calls() if src(c.func).endswith("blocks.append")]
    rets = [g for g in elin.stmts if isinstance(g.node, ast.Return)]
    ref_stores = [g for g in elin.stmts if isinstance(g.node, ast.Assign) and any(isinstance(t, ast.Attribute) and t.attr == "referent" for t in g.node.targets)]
    if not place:
        raise AnalysisError("emit_label: placement of the label block not found")
    ctx.check(not rets and place[0][0].top, el, (rets or place)[0].node if rets else place[0][1], "every label's pre-created block is placed (no early exit)",
              "some labels no longer get their own block placed: `_precreate_label` created one block per label so that a *forward* branch or call can already capture `symbol.referent` as its "
              "edge target; if a later label shares another block instead, earlier jumps to it end at an orphan block that is in no section", key="emit_label::always-placed")
    ctx.check(not ref_stores, el, ref_stores[0].node if ref_stores else el.node, "emit_label never re-points a label symbol",
              "a label symbol's referent is changed after forward references may have captured the old one", key="emit_label::no-referent-store")


@rule("C13.9", ["C13", "C12"], "a symbol reference is resolved through _resolve_symbol for every name (no refusal ahead of the lookup)", 2)
def c13_9(ctx: Ctx):
    fi = ctx.repo.func("assembler.assembler._Streamer._resolve_symbol_ref")
    lin = linear(fi.node)
    raises = [g for g in lin.stmts if isinstance(g.node, ast.Raise)]
    calls = [(g, c) for g, c in lin.all_calls() if src(c.func) == "self._resolve_symbol"]
    if not calls:
        raise AnalysisError("_resolve_symbol_ref: delegation to _resolve_symbol not found")
    ctx.check(not raises and all(g.top for g, _ in calls), fi, (raises[0].node if raises else calls[0][1]), "_resolve_symbol_ref delegates unconditionally",
              "a reference is refused before local_symbols and the target were consulted: module symbols whose own names look temporary to LLVM (ddisasm's `.L_401000`, `.LC0`, an earlier patch's "
              "`.Lfoo_1`, every `L...` name on PE/IA32 such as `LoadLibraryA`) no longer bind to the module's symbol", key="_resolve_symbol_ref::no-refusal")
    rs = ctx.repo.func("assembler.assembler._Streamer._resolve_symbol")
    rlin = linear(rs.node)
    look = [(g, c) for g, c in rlin.all_calls() if src(c.func) == "self._symbol_lookup"]
    ctx.check(len(look) == 1 and look[0][0].top and look[0][0].index == min(g.index for g in rlin.stmts if not isinstance(g.node, ast.Expr) or not isinstance(g.node.value, ast.Constant)),
              rs, rs.node, "_resolve_symbol starts with the lookup", "something precedes or guards the lookup", key="_resolve_symbol::lookup-first")


@rule("C06.11", ["C06", "C13", "C02"], "RewritingContext only sets the referent of symbols it has just created", 1)
def c06_11(ctx: Ctx):
    ci = ctx.repo.cls("rewriting.RewritingContext")
    n = 0
    for name, m in sorted(ci.methods.items()):
        for st in walk_no_nested(m.node):
            if not (isinstance(st, ast.Assign) and any(isinstance(t, ast.Attribute) and t.attr == "referent" and isinstance(t.value, ast.Name) for t in st.targets)):
                continue
            n += 1
            var = next(t.value.id for t in st.targets if isinstance(t, ast.Attribute) and t.attr == "referent")
            binds = [a for a in walk_no_nested(m.node) if isinstance(a, ast.Assign) and any(isinstance(t, ast.Name) and t.id == var for t in a.targets)]
            fresh = bool(binds) and all(isinstance(b.value, ast.Call) and src(b.value.func) in ("gtirb.Symbol", "Symbol") for b in binds)
            ctx.check(fresh, m, st, f"{name}: `{src(st)}` on a symbol created here",
                      f"`{var}` may be a symbol that already exists in the module (bound from `{src(binds[0].value)[:60] if binds else '?'}`): re-pointing it moves every existing reference - when it is the "
                      "name symbol of a defined function that stays, one symbol then names two functions and the older function's functionNames entry no longer sits on its entry block",
                      key=f"RewritingContext.{name}::referent-of-fresh-symbol")
    if n < 1:
        raise AnalysisError("no referent store found in RewritingContext (register_insert_function expected)")


# ----------------------------------------------------------------------------
# memoisation of answers that depend on mutable state
# ----------------------------------------------------------------------------

_CONTAINER_CTORS_EARLY = ("dict", "set", "list", "tuple", "frozenset", "defaultdict")
_NODE_TYPES = ("gtirb.CodeBlock", "gtirb.DataBlock", "gtirb.ByteBlock", "gtirb.Block", "gtirb.Module", "gtirb.ByteInterval", "gtirb.Section", "gtirb.Symbol", "gtirb.CfgNode",
               "CodeBlock", "DataBlock", "ByteBlock", "ByteInterval")


@rule("GEN.cachemutable", ALL_PROPS, "functools caches are not put on functions whose answer depends on more than their arguments (a module, self, an enclosing scope)", 1, scoped=True)
def gen_cachemutable(ctx: Ctx):
    n = 0
    for q, fi in sorted(ctx.repo.funcs.items()):
        n += 1
        fn = fi.node
        decs = [src(d) for d in fn.decorator_list]
        cached = [d for d in decs if d.split("(")[0] in ("functools.lru_cache", "lru_cache", "functools.cache", "cache", "functools.cached_property", "cached_property")]
        if not cached:
            continue
        a = fn.args
        params = {x.arg for x in a.args + a.kwonlyargs + a.posonlyargs}
        local = {t.id for x in ast.walk(fn) for t in ast.walk(x) if isinstance(t, ast.Name) and isinstance(t.ctx, ast.Store)}
        free = sorted({x.id for x in ast.walk(fn) if isinstance(x, ast.Name) and isinstance(x.ctx, ast.Load) and x.id not in params and x.id not in local
                       and fi.parent is not None and x.id not in fi.mod.imports and x.id not in fi.mod.functions and x.id not in fi.mod.classes and x.id not in dir(__builtins__)
                       and not x.id[:1].isupper()})
        uses_self = "self" in params and any(isinstance(x, ast.Attribute) and isinstance(x.value, ast.Name) and x.value.id == "self" for x in ast.walk(fn))
        node_param = [x.arg for x in a.args if x.annotation is not None and src(x.annotation).strip("\"'") in _NODE_TYPES]
        why = (f"reads `{free[0]}` from the enclosing scope" if free else "reads attributes of `self`" if uses_self else f"takes the mutable node `{node_param[0]}`" if node_param else None)
        ctx.check(why is None, fi, fn, f"`@{cached[0]}` on {q.split('.')[-1]}",
                  f"`@{cached[0]}` remembers the first answer per argument, but the function {why}: the answer goes stale as soon as that state changes (a module's symbol set grows with every "
                  "inserted patch; negative answers are cached too), so a later assembly on the same target no longer sees symbols added meanwhile - no MultipleDefinitionsError for a redefinition, "
                  "UndefSymbolError for a symbol that exists", key=f"{q}::cachemutable")
    ctx.ok(ctx.repo.mod("rewriting"), None, f"{n} functions examined for functools caches over mutable state", nontrivial=False, key="GEN.cachemutable::scan")


@rule("GEN.memonode", ALL_PROPS, "a lazily filled memo is not keyed by a gtirb node whose contents the rewrite changes", 1, scoped=True)
def gen_memonode(ctx: Ctx):
    n = 0
    for q, fi in sorted(ctx.repo.funcs.items()):
        fn = fi.node
        node_params = {x.arg for x in fn.args.args + fn.args.kwonlyargs if x.annotation is not None and src(x.annotation).strip("\"'") in _NODE_TYPES}
        if not node_params:
            continue
        for st in walk_no_nested(fn):
            # if K not in D: D[K] = <call involving K>     |     D.setdefault(K, <call involving K>)
            hit = None
            if isinstance(st, ast.If) and isinstance(st.test, ast.Compare) and len(st.test.ops) == 1 and isinstance(st.test.ops[0], ast.NotIn) \
                    and isinstance(st.test.left, ast.Name) and st.test.left.id in node_params:
                d = src(st.test.comparators[0])
                for b in st.body:
                    if isinstance(b, ast.Assign) and isinstance(b.targets[0], ast.Subscript) and src(b.targets[0].value) == d and src(b.targets[0].slice) == st.test.left.id \
                            and any(isinstance(x, ast.Call) and not (src(x.func).split(".")[-1].lstrip("_")[:1].isupper() or src(x.func).split(".")[-1] in _CONTAINER_CTORS_EARLY) for x in ast.walk(b.value)) \
                            and st.test.left.id in {y.id for y in ast.walk(b.value) if isinstance(y, ast.Name)}:
                        hit = (st, d, st.test.left.id)
            if hit is None:
                continue
            n += 1
            stt, d, k = hit
            if not d.startswith("self."):
                continue
            ctx.fail(fi, stt, f"`{d}[{k}]` filled on first use from `{k}`",
                     f"`{d}` remembers what was computed from the node `{k}` the first time it was asked; the rewrite changes the node's bytes/edges/membership afterwards (a deletion in the same "
                     "apply(), an insertion by another path), and every invalidation site has to be remembered by hand - a later consumer (retarget_symbol_uses classifying a `call` against the "
                     "pre-deletion instruction list) then works on the stale answer", key=f"{q}::memonode::{d}")
    ctx.ok(ctx.repo.mod("rewriting"), None, f"{n} node-keyed lazy memos found", nontrivial=False, key="GEN.memonode::scan")


round7._FIXTURE += '''

import functools
import gtirb

def make_lookup(module):
    @functools.lru_cache(maxsize=None)
    def named(name: str):
        return tuple(module.symbols_named(name))
    return named


class Decoder:
    def __init__(self):
        self._decoded = {}

    def get(self, block: gtirb.CodeBlock):
        if block not in self._decoded:
            self._decoded[block] = tuple(decode(block))
        return self._decoded[block]
'''
round7._FIXTURE_EXPECT["GEN.cachemutable"] = "named"
round7._FIXTURE_EXPECT["GEN.memonode"] = "Decoder.get"


@rule("C07.13", ["C07", "C18", "C19"], "PassManager.run applies every module's context unconditionally", 1)
def c07_13(ctx: Ctx):
    fi = ctx.repo.func("passes.PassManager.run")
    lin = linear(fi.node)
    app = [(g, c) for g, c in lin.all_calls() if isinstance(c.func, ast.Attribute) and c.func.attr == "apply" and not c.args]
    if len(app) != 1 or not app[0][0].loops:
        raise AnalysisError("PassManager.run: the apply() call inside the module loop not found")
    g = app[0][0]
    mloop = g.loops[0]
    first = next(x for x in lin.stmts if mloop in x.loops)
    ctx.check(implies(first.guard, g.guard) and g.nest == first.nest, fi, app[0][1], "apply() runs for every module, unconditionally",
              "apply() is skipped under a condition: every kind of request a pass can register (insertions, function insertions, symbol deletions *and* symbol retargets) is only carried out by "
              "apply(); a guard that forgets one kind (a module whose passes only call retarget_symbol_uses) leaves the module untouched although the side effects of registration "
              "(get_or_insert_extern_symbol) are already in it", key="PassManager.run::apply-unconditional")


# ----------------------------------------------------------------------------
# a search loop ("does any element match?") does not answer from the first element
# ----------------------------------------------------------------------------


def _is_const(e: Optional[ast.AST], val) -> bool:
    return isinstance(e, ast.Constant) and e.value is val


@rule("GEN.earlyverdict", ALL_PROPS, "a loop that looks for *any* matching element returns inside the loop only when it has found one", 1, scoped=True)
def gen_earlyverdict(ctx: Ctx):
    n = 0
    for q, fi in sorted(ctx.repo.funcs.items()):
        body = fi.node.body
        for i, st in enumerate(body):
            if not isinstance(st, (ast.For, ast.AsyncFor)) or st.orelse:
                continue
            after = body[i + 1] if i + 1 < len(body) else None
            if not (isinstance(after, ast.Return) and _is_const(after.value, False)):
                continue
            rets = [x for x in walk_no_nested(st) if isinstance(x, ast.Return)]
            if not any(_is_const(r.value, True) for r in rets):
                continue
            n += 1
            bad = [r for r in rets if r.value is not None and not isinstance(r.value, ast.Constant)]
            ctx.check(not bad, fi, bad[0] if bad else st, f"any-search over `{src(st.iter)[:40]}`: the loop only returns True",
                      (f"`{src(bad[0])[:70]}` ends the search with whatever the *first* element of this kind says: when that is False the remaining elements of `{src(st.iter)[:40]}` are never "
                       "looked at, so a set such as {MAIN_NAME, 'helper'} matches or not depending on which element the set yields first") if bad else "",
                      key=f"{q}::earlyverdict::{src(st.iter)[:40]}")
    ctx.ok(ctx.repo.mod("scopes"), None, f"{n} any-search loops examined", nontrivial=False, key="GEN.earlyverdict::scan")


# ----------------------------------------------------------------------------
# a helper that reads a collection is not called from inside the loop that is emptying that collection
# ----------------------------------------------------------------------------


@rule("GEN.loopstale", ALL_PROPS, "a loop over a snapshot of X.attr that removes from the live collection does not call, per iteration, a helper that reads X.attr again", 1, scoped=True)
def gen_loopstale(ctx: Ctx):
    from ..resolve import resolve_call

    n = 0
    for q, fi in sorted(ctx.repo.funcs.items()):
        for lp in walk_no_nested(fi.node):
            if not isinstance(lp, ast.For):
                continue
            it = lp.iter
            if not (isinstance(it, ast.Call) and isinstance(it.func, ast.Name) and it.func.id in ("tuple", "set", "list", "frozenset", "sorted") and len(it.args) >= 1
                    and isinstance(it.args[0], ast.Attribute) and isinstance(it.args[0].value, ast.Name)):
                continue
            obj, attr = it.args[0].value.id, it.args[0].attr
            removes = [c for st in lp.body for c in calls_in(st) if isinstance(c.func, ast.Attribute) and c.func.attr in ("discard", "remove", "pop", "clear")]
            if not removes:
                continue
            n += 1
            for st in lp.body:
                for c in calls_in(st):
                    for a in list(c.args) + [k.value for k in c.keywords]:
                        for inner in ast.walk(a):
                            if not isinstance(inner, ast.Call):
                                continue
                            _check_reader(ctx, fi, q, lp, inner, obj, attr, resolve_call)
                    _check_reader(ctx, fi, q, lp, c, obj, attr, resolve_call)
    ctx.ok(ctx.repo.mod("rewriting"), None, f"{n} snapshot loops that remove from a live collection examined", nontrivial=False, key="GEN.loopstale::scan")


def _check_reader(ctx, fi, q, lp, call, obj, attr, resolve_call):
    pos = [i for i, a in enumerate(call.args) if isinstance(a, ast.Name) and a.id == obj]
    if not pos:
        return
    try:
        targets = resolve_call(ctx.repo, fi, call)
    except Exception:
        return
    for t in targets:
        fn = getattr(t, "node", None)
        if not isinstance(fn, ast.FunctionDef):
            continue
        params = [a.arg for a in fn.args.args]
        if params and params[0] in ("self", "cls") and getattr(t, "cls", None) is not None:
            params = params[1:]
        for i in pos:
            if i < len(params) and any(isinstance(x, ast.Attribute) and x.attr == attr and isinstance(x.value, ast.Name) and x.value.id == params[i] for x in ast.walk(fn)):
                ctx.fail(fi, call, f"`{src(call)[:60]}` inside the loop over `{src(lp.iter)[:50]}`",
                         f"`{src(call)[:60]}` reads `{obj}.{attr}` on every iteration while the loop body removes elements from that live collection: its answer depends on how many elements "
                         "were already removed, i.e. on the iteration order of the snapshot (a call's fallthrough successor is no longer found once the fallthrough edge was discarded first, so "
                         "the callee keeps a Return edge to a block that is no longer a return site)", key=f"{q}::loopstale::{src(call.func)}")
                return


round7._FIXTURE += '''

def matches_any(module, func, names) -> bool:
    for name in names:
        if name == "main":
            return func.get_name() == "main"
        if func.get_name() == name:
            return True
    return False


def successors(block):
    return {e.target for e in block.outgoing_edges}


def drop_edges(cfg, block):
    for edge in tuple(block.outgoing_edges):
        if edge.label:
            note(edge, successors(block))
        cfg.discard(edge)
'''
round7._FIXTURE_EXPECT["GEN.earlyverdict"] = "matches_any"
round7._FIXTURE_EXPECT["GEN.loopstale"] = "drop_edges"


@rule("C10.12", ["C10", "C12"], "an alignment directive never weakens the requirement already recorded for the (still empty) current block", 2)
def c10_12(ctx: Ctx):
    fi = ctx.repo.func("assembler.assembler._Streamer._emit_alignment")
    lin = linear(fi.node)
    stores = [g for g in lin.stmts if isinstance(g.node, ast.Assign) and any(isinstance(t, ast.Subscript) and src(t.value).endswith("alignment") or
                                                                              (isinstance(t, ast.Subscript) and "alignment" in _expanded(fi.node, t.value)) for t in g.node.targets)]
    if not stores:
        raise AnalysisError("_emit_alignment: store into the section's alignment map not found")
    early = [x for x in lin.stmts if isinstance(x.node, ast.Return) and x.index < stores[-1].index]
    ctx.check(not early, fi, early[0].node if early else fi.node, "every accepted alignment directive reaches the store (no early return)",
              "a directive is dropped under a condition before its alignment is recorded: `.align 4` directly followed by `.align 16` on the same empty block keeps 4 only - the aligned instruction "
              "lands on an address that is not 16-aligned", key="_emit_alignment::no-early-return")
    for g in stores:
        tgt = next(t for t in g.node.targets if isinstance(t, ast.Subscript))
        m, k = src(tgt.value), src(tgt.slice)
        v = g.node.value
        keeps = isinstance(v, ast.Call) and isinstance(v.func, ast.Name) and v.func.id == "max" and any(
            (isinstance(x, ast.Call) and isinstance(x.func, ast.Attribute) and x.func.attr == "get" and src(x.func.value) == m) or (isinstance(x, ast.Subscript) and src(x.value) == m)
            for a in v.args for x in ast.walk(a))
        absent = False
        try:
            absent = lin.under(g, f"{k} not in {m}")
        except Exception:
            pass
        ctx.check(keeps or absent, fi, g.node, f"`{src(g.node)[:70]}` keeps the stricter of the old and the new requirement",
                  f"`{src(g.node)[:80]}` overwrites whatever was recorded for the block: the block is only split when it has bytes, so two directives in a row (`.align 16; .align 4; nop`) hit the "
                  "same empty block and the last one wins - the assembler pads for both, so the instruction is 16-aligned in the listing, but the patch block is recorded (and later placed) with "
                  "alignment 4 only", key="_emit_alignment::keeps-stricter")


# ----------------------------------------------------------------------------
# an update loop does not stop after its first update
# ----------------------------------------------------------------------------


@rule("GEN.updatefirst", ALL_PROPS, "a loop that updates every matching element does not leave (bare return / break) right after the first update", 1, scoped=True)
def gen_updatefirst(ctx: Ctx):
    n = 0
    for q, fi in sorted(ctx.repo.funcs.items()):
        for lp in walk_no_nested(fi.node):
            if not isinstance(lp, ast.For):
                continue
            n += 1
            for node in ast.walk(lp):
                for fld in ("body", "orelse"):
                    b = getattr(node, fld, None)
                    if not isinstance(b, list):
                        continue
                    for i, st in enumerate(b):
                        bare = isinstance(st, ast.Break) or (isinstance(st, ast.Return) and st.value is None)
                        if bare and i > 0 and isinstance(b[i - 1], ast.Expr) and isinstance(b[i - 1].value, ast.Call) and not src(b[i - 1].value.func).startswith(("logging.", "log.", "logger.", "warnings.")):
                            ctx.fail(fi, st, f"`{src(b[i - 1])[:60]}` then `{src(st)}` inside the loop over `{src(lp.iter)[:40]}`",
                                     f"the loop over `{src(lp.iter)[:50]}` stops after the first `{src(b[i - 1].value.func)}`: the remaining elements are never updated (a callee with three `ret` "
                                     "blocks: only one arbitrary Return edge follows the call's new fallthrough, the others keep pointing at the old return site), and which element was served "
                                     "depends on the collection's iteration order", key=f"{q}::updatefirst::{src(b[i - 1].value.func)}")
    ctx.ok(ctx.repo.mod("rewriting"), None, f"{n} loops examined for an exit right after an update call", nontrivial=False, key="GEN.updatefirst::scan")
    if n < 150 and "fixture" not in ctx.repo.mods:
        raise AnalysisError(f"only {n} loops scanned")


round7._FIXTURE += '''

def move_returns(cfg, blocks, old, new):
    for block in blocks:
        for edge in block.outgoing_edges:
            if edge.target in old:
                update_edge(edge, cfg, cfg, target=new)
                return
'''
round7._FIXTURE_EXPECT["GEN.updatefirst"] = "move_returns"


@rule("C12.19", ["C12"], "a directive that emits zero bytes leaves no line-map or block-type entry behind on an empty block", 2)
def c12_19(ctx: Ctx):
    ap = ctx.repo.func("assembler.assembler._Streamer._append_data")
    lin = linear(ap.node)
    stores = [g for g in lin.stmts if isinstance(g.node, ast.Assign) and isinstance(g.node.targets[0], ast.Subscript) and "line_map" in src(g.node.targets[0].value)]
    if len(stores) != 1:
        raise AnalysisError("_append_data: line_map store not found")
    par = ap.node.args.args[1].arg
    ctx.check(lin.under(stores[0], par), ap, stores[0].node, "_append_data records a source line only when it appends bytes",
              f"the line-map entry is written even when `{par}` is empty (`.zero 0`, `.fill 0`): an empty trailing block then carries a line_map entry and finalize() dies with a bare "
              "AssertionError in _remove_trailing_empty_block (`ret; .zero 0`)", key="_append_data::no-entry-for-nothing")
    eb = ctx.repo.func("assembler.assembler._Streamer.emit_bytes")
    elin = linear(eb.node)
    typed = [(g, c) for g, c in elin.all_calls() if src(c.func) == "self._emit_value_with_encoding"]
    if not typed:
        raise AnalysisError("emit_bytes: typed emission not found")
    dpar = eb.node.args.args[2].arg
    ctx.check(all(elin.under(g, dpar) for g, _ in typed), eb, typed[0][1], "emit_bytes gives a block a string type only when there are bytes",
              f"an empty `{dpar}` (`.ascii ''`) still gets its own typed block: the empty block carries a block_types entry and finalize() dies with a bare AssertionError in "
              "_remove_empty_blocks", key="emit_bytes::no-type-for-nothing")


# ----------------------------------------------------------------------------
# round 9: state that outlives its validity
# ----------------------------------------------------------------------------

_CONTAINER_CTORS = ("dict", "set", "list", "defaultdict", "OrderedDict", "Counter", "WeakKeyDictionary", "WeakValueDictionary", "WeakSet", "IdentitySet", "deque")
_MUTATORS = ("add", "update", "setdefault", "append", "pop", "clear", "discard", "remove", "extend", "insert", "popitem", "appendleft")


def _is_container_value(v: ast.AST) -> bool:
    if isinstance(v, (ast.Dict, ast.Set, ast.List)):
        return True
    return isinstance(v, ast.Call) and src(v.func).split(".")[-1] in _CONTAINER_CTORS


@rule("GEN.modulestate", ALL_PROPS, "no module-level container is written at run time (process-wide state outlives every module, context and rewrite)", 1, scoped=True)
def gen_modulestate(ctx: Ctx):
    n = 0
    for mname, mod in sorted(ctx.repo.mods.items()):
        tops: Dict[str, ast.stmt] = {}
        for st in mod.tree.body:
            tg = v = None
            if isinstance(st, ast.Assign) and len(st.targets) == 1 and isinstance(st.targets[0], ast.Name):
                tg, v = st.targets[0].id, st.value
            elif isinstance(st, ast.AnnAssign) and isinstance(st.target, ast.Name) and st.value is not None:
                tg, v = st.target.id, st.value
            if tg and v is not None and _is_container_value(v):
                tops[tg] = st
        n += len(tops)
        if not tops:
            continue
        for q, fi in sorted(ctx.repo.funcs.items()):
            if fi.mod is not mod:
                continue
            local = {t.id for x in ast.walk(fi.node) if isinstance(x, ast.Assign) for t in x.targets if isinstance(t, ast.Name)} | {a.arg for a in fi.node.args.args + fi.node.args.kwonlyargs}
            for x in ast.walk(fi.node):
                name = None
                if isinstance(x, ast.Call) and isinstance(x.func, ast.Attribute) and isinstance(x.func.value, ast.Name) and x.func.attr in _MUTATORS:
                    name = x.func.value.id
                elif isinstance(x, (ast.Assign, ast.AugAssign)):
                    for t in (x.targets if isinstance(x, ast.Assign) else [x.target]):
                        for s in ast.walk(t):
                            if isinstance(s, ast.Subscript) and isinstance(s.ctx, ast.Store) and isinstance(s.value, ast.Name):
                                name = s.value.id
                if name in tops and name not in local:
                    ctx.fail(fi, x if isinstance(x, ast.stmt) else fi.node, f"`{name}` (module level) is written in {q.split('.')[-1]}",
                             f"`{src(x)[:70]}` changes the module-level `{name}`: what is remembered there survives the RewritingContext, the module and the rewrite it was computed for - a second "
                             "rewrite of the same block object / of a module with the same UUID / of a module with another ABI in the same process is answered from the first one's state "
                             "(stale EXIT offsets, label suffixes that continue across runs, escapes decoded with another byte order)", key=f"{q}::modulestate::{name}")
                    break
    ctx.ok(ctx.repo.mod("rewriting"), None, f"{n} module-level containers examined for run-time writes", nontrivial=False, key="GEN.modulestate::scan")
    if n < 5 and "fixture" not in ctx.repo.mods:
        raise AnalysisError(f"only {n} module-level containers found")


_MEMO_REVIEWED: Dict[Tuple[str, str], str] = {}


def _persistent(e: ast.AST, fn: ast.AST, module_names: Set[str]) -> bool:
    """Does the container expression outlive the call (an attribute of self / of a parameter, or a module-level name)?"""
    if isinstance(e, ast.Attribute):
        return True
    if isinstance(e, ast.Name):
        bound = any(isinstance(x, ast.Assign) and any(isinstance(t, ast.Name) and t.id == e.id for t in x.targets) for x in ast.walk(fn))
        return e.id in module_names and not bound
    return False


@rule("GEN.memo", ALL_PROPS, "no look-up-miss-then-fill memo in an attribute or module-level container (a remembered answer about the IR goes stale when the IR is edited)", 1, scoped=True)
def gen_memo(ctx: Ctx):
    n = 0
    for q, fi in sorted(ctx.repo.funcs.items()):
        fn = fi.node
        module_names = {t.id for st in fi.mod.tree.body if isinstance(st, (ast.Assign, ast.AnnAssign)) for t in ([st.target] if isinstance(st, ast.AnnAssign) else st.targets) if isinstance(t, ast.Name)}
        stores = []   # (container source, key source, stmt, value)
        for st in walk_no_nested(fn):
            if isinstance(st, ast.Assign):
                for t in st.targets:
                    if isinstance(t, ast.Subscript) and _persistent(t.value, fn, module_names):
                        stores.append((src(t.value), src(t.slice), st, st.value))
        if not stores and not any(isinstance(x, ast.If) for x in walk_no_nested(fn)):
            continue
        reads: Dict[Tuple[str, str], ast.AST] = {}
        for x in ast.walk(fn):
            # D.get(K)  |  K in D  |  K not in D
            if isinstance(x, ast.Call) and isinstance(x.func, ast.Attribute) and x.func.attr == "get" and len(x.args) >= 1:
                reads[(src(x.func.value), src(x.args[0]))] = x
            if isinstance(x, ast.Compare) and len(x.ops) == 1 and isinstance(x.ops[0], (ast.In, ast.NotIn)):
                reads[(src(x.comparators[0]), src(x.left))] = x
        lin = linear(fn) if stores else None
        for d, k, st, v in stores:
            if (d, k) not in reads:
                continue
            # the store must sit on the miss path: inside `if K not in D:` / the else of `if K in D:` / `if v is None:` for a `v = D.get(K)`
            try:
                g = lin.of(st)
            except AnalysisError:
                continue
            getters = {a.targets[0].id for a in walk_no_nested(fn) if isinstance(a, ast.Assign) and len(a.targets) == 1 and isinstance(a.targets[0], ast.Name)
                       and isinstance(a.value, ast.Call) and isinstance(a.value.func, ast.Attribute) and a.value.func.attr == "get" and src(a.value.func.value) == d
                       and len(a.value.args) == 1 and src(a.value.args[0]) == k}
            on_miss = False
            for cond in walk_no_nested(fn):
                if not isinstance(cond, ast.If):
                    continue
                t = cond.test
                in_body = any(x is st for b in cond.body for x in ast.walk(b))
                in_else = any(x is st for b in cond.orelse for x in ast.walk(b))
                if isinstance(t, ast.Compare) and len(t.ops) == 1 and src(t.left) == k and src(t.comparators[0]) == d:
                    if (isinstance(t.ops[0], ast.NotIn) and in_body) or (isinstance(t.ops[0], ast.In) and in_else):
                        on_miss = True
                if in_body and isinstance(t, ast.Compare) and len(t.ops) == 1 and isinstance(t.ops[0], ast.Is) and isinstance(t.left, ast.Name) and t.left.id in getters \
                        and isinstance(t.comparators[0], ast.Constant) and t.comparators[0].value is None:
                    on_miss = True
                if in_body and isinstance(t, ast.UnaryOp) and isinstance(t.op, ast.Not) and isinstance(t.operand, ast.Name) and t.operand.id in getters:
                    on_miss = True
            if not on_miss:
                continue
            # "refuse duplicates, then register" is not a memo: the hit path raises instead of answering
            refuses = False
            for r in lin.stmts:
                if isinstance(r.node, ast.Raise):
                    try:
                        if lin.under(r, f"{k} in {d}"):
                            refuses = True
                    except Exception:
                        pass
            if refuses:
                continue
            # get-or-create of an owned record (`sections[name] = Section(...)`, `refs[b] = (RefNode(b), RefNode(b))`) is state, not a remembered answer:
            # a memo's value comes out of function/method calls (queries), a record's out of constructors only
            exprs = [v]
            if isinstance(v, ast.Name):
                exprs = [a.value for a in walk_no_nested(fn) if isinstance(a, ast.Assign) and any(isinstance(t, ast.Name) and t.id == v.id for t in a.targets) and a.value is not None
                         and not (isinstance(a.value, ast.Call) and isinstance(a.value.func, ast.Attribute) and a.value.func.attr == "get" and src(a.value.func.value) == d)]
                exprs += [c for c in calls_in(fn) if isinstance(c.func, ast.Attribute) and isinstance(c.func.value, ast.Name) and c.func.value.id == v.id and c.func.attr in _MUTATORS]

            def ctor_like(c: ast.Call) -> bool:
                last = src(c.func).split(".")[-1]
                if isinstance(c.func, ast.Name) and c.func.id in {a.arg for a in fn.args.args + fn.args.kwonlyargs}:
                    return True   # a factory handed in by the caller
                return last.lstrip("_")[:1].isupper() or last in _CONTAINER_CTORS or last in ("int", "len", "tuple", "frozenset", "str", "bool", "cast", "isinstance") or last in _MUTATORS

            queries = [c for e in exprs for c in ast.walk(e) if isinstance(c, ast.Call) and not ctor_like(c)]
            if not queries:
                continue
            n += 1
            if _is_container_value(v) and not (isinstance(v, ast.Call) and v.args):
                continue   # "make sure the entry exists" (`if e not in self._data: self._data[e] = {}`), not a remembered answer
            if (q, d) in _MEMO_REVIEWED:
                continue
            ctx.fail(fi, st, f"`{d}[{k}]` is filled on a miss and answered from afterwards",
                     f"`{src(st)[:80]}` after a miss on `{d}`: the value computed now is handed out again on every later request for `{k}`, but nothing ties its lifetime to the state it was "
                     "computed from - a function's return targets change when a patch adds a call to it in the same apply(), a module's function list changes with every rewrite, an assembly "
                     "text embeds symbol names that can be renamed; the batch then differs from one-at-a-time application", key=f"{q}::memo::{d}")
        # lazy attribute:  if self.A is None: self.A = <computed>
        for st in walk_no_nested(fn):
            if isinstance(st, ast.If) and isinstance(st.test, ast.Compare) and len(st.test.ops) == 1 and isinstance(st.test.ops[0], ast.Is) \
                    and isinstance(st.test.comparators[0], ast.Constant) and st.test.comparators[0].value is None and isinstance(st.test.left, ast.Attribute):
                a = src(st.test.left)
                for b in st.body:
                    if isinstance(b, ast.Assign) and any(src(t) == a for t in b.targets) and not _is_container_value(b.value) and any(isinstance(c, ast.Call) for c in ast.walk(b.value)):
                        n += 1
                        reads_self = any(isinstance(y, ast.Attribute) and src(y) != a and isinstance(y.value, ast.Name) and y.value.id == "self" for y in ast.walk(b.value))
                        if not reads_self:
                            continue   # GEN.stalecache judges lazily built values that depend on an argument
                        ctx.fail(fi, b, f"`{a}` is computed once from other state of `self`",
                                 f"`{src(b)[:80]}`: the answer is remembered until somebody resets `{a}`, but the state it is computed from can change without going through this class "
                                 "(the per-element dictionaries an OffsetMapping hands out are live views: `m[elem][4] = x` changes the contents and leaves the cached length behind)",
                                 key=f"{q}::lazyattr::{a}")
    ctx.ok(ctx.repo.mod("rewriting"), None, f"{n} miss-then-fill / lazy-attribute sites examined", nontrivial=False, key="GEN.memo::scan")


@rule("GEN.readindex", ALL_PROPS, "the result of a stream read is not indexed before its length was checked", 1, scoped=True)
def gen_readindex(ctx: Ctx):
    n = 0
    for q, fi in sorted(ctx.repo.funcs.items()):
        for x in ast.walk(fi.node):
            if isinstance(x, ast.Call) and isinstance(x.func, ast.Attribute) and x.func.attr == "read":
                n += 1
            if isinstance(x, ast.Subscript) and isinstance(x.value, ast.Call) and isinstance(x.value.func, ast.Attribute) and x.value.func.attr == "read" and not isinstance(x.slice, ast.Slice):
                ctx.fail(fi, fi.node, f"`{src(x)[:50]}`",
                         f"`{src(x)[:60]}` indexes what `read()` returned: at the end of the stream that is an empty byte string and the index raises IndexError, which none of the callers "
                         "converts - a `.cfi_escape` truncated inside this operand leaks IndexError instead of the documented ValueError/CFIStateError", key=f"{q}::readindex")
    ctx.ok(ctx.repo.mod("rewriting"), None, f"{n} stream reads examined", nontrivial=False, key="GEN.readindex::scan")


round7._FIXTURE += '''

_SEEN = {}
_PREPARED = set()

def remember(block, offset):
    _SEEN[block] = offset

def prepare(module):
    if module in _PREPARED:
        return
    _PREPARED.add(module)


class Targets:
    def __init__(self):
        self.by_function = {}
        self._len = None
        self._data = {}

    def targets(self, cache, uuid):
        found = self.by_function.get(uuid)
        if found is None:
            found = compute(cache, uuid)
            self.by_function[uuid] = found
        return found

    def __len__(self):
        if self._len is None:
            self._len = sum(len(v) for v in self._data.values())
        return self._len


def first_byte(io):
    return io.read(1)[0]
'''
round7._FIXTURE_EXPECT["GEN.modulestate"] = "remember"
round7._FIXTURE_EXPECT["GEN.memo"] = "Targets.targets"
round7._FIXTURE_EXPECT["GEN.readindex"] = "first_byte"


@rule("GEN.tablehandle", ALL_PROPS, "an aux-data table handle obtained with `.get(...)` (None while the table does not exist) is not kept in an attribute", 1, scoped=True)
def gen_tablehandle(ctx: Ctx):
    n = 0
    for q, fi in sorted(ctx.repo.funcs.items()):
        for st in walk_no_nested(fi.node):
            if not (isinstance(st, (ast.Assign, ast.AnnAssign)) and getattr(st, "value", None) is not None):
                continue
            v = st.value
            tgts = st.targets if isinstance(st, ast.Assign) else [st.target]
            if isinstance(v, ast.Call) and isinstance(v.func, ast.Attribute) and v.func.attr in ("get", "get_or_insert") and src(v.func.value).startswith(("_auxdata.", "_auxdata_offsetmap.")):
                n += 1
                if v.func.attr == "get" and any(isinstance(t, ast.Attribute) for t in tgts):
                    ctx.fail(fi, st, f"`{src(st)[:70]}`",
                             f"`{src(st)[:80]}` keeps what `.get()` returned at this moment - None when the module has no such table yet. Tables are created on demand later in the same rewrite "
                             "(`insert()` records a patch's `.align` requests with get_or_insert), so every later user of the attribute works on 'no table': entries of removed blocks stay behind "
                             "and the table ends up mentioning blocks that are not in the module", key=f"{q}::tablehandle::{src(tgts[0])}")
    ctx.ok(ctx.repo.mod("rewriting"), None, f"{n} aux-table look-ups examined", nontrivial=False, key="GEN.tablehandle::scan")
    if n < 30 and "fixture" not in ctx.repo.mods:
        raise AnalysisError(f"only {n} aux-table look-ups found")


round7._FIXTURE += '''

class Holder:
    def __init__(self, module):
        self.alignment = _auxdata.alignment.get(module)
'''
round7._FIXTURE_EXPECT["GEN.tablehandle"] = "Holder.__init__"


_RETIREMENT_SITES = {
    ("_modify.delete_symbols.delete_symbols", "symbol.module"): "C19: tables, expressions, then detachment (C19.5)",
    ("_modify.remove.remove_block", "block.byte_interval"): "RET protocol at remove_block",
    ("_modify.join.join_blocks", "block2.byte_interval"): "RET protocol at join_blocks",
    ("prepare.prepare_for_rewriting", "interval.section"): "joined intervals leave their section (C01.7)",
}


@rule("C05.15", ["C05", "C03", "C06", "C02"], "nodes leave the module only at the four sites whose retirement protocol is checked (a new detach site discharges none of it)", 4)
def c05_15(ctx: Ctx):
    seen = set()
    for q, fi in sorted(ctx.repo.funcs.items()):
        for st in walk_no_nested(fi.node):
            if not (isinstance(st, ast.Assign) and isinstance(st.value, ast.Constant) and st.value.value is None):
                continue
            for t in st.targets:
                if isinstance(t, ast.Attribute) and t.attr in ("module", "section", "byte_interval") and isinstance(t.value, ast.Name):
                    key = (q, src(t))
                    if key in _RETIREMENT_SITES:
                        seen.add(key)
                        ctx.ok(fi, st, f"`{src(st)}` in {q.split('.')[-1]}", _RETIREMENT_SITES[key], key=f"{q}::detach::{src(t)}")
                        continue
                    x = t.value.id
                    text = src(fi.node)
                    edges = f"{x}.incoming_edges" in text or f"in_edges({x})" in text
                    refs = f"{x}.references" in text or f"get_references({x})" in text
                    ctx.fail(fi, st, f"`{src(st)}` in {q.split('.')[-1]}",
                             f"`{src(st)}` takes `{x}` out of the module at a site that is not one of the four checked retirement sites"
                             + (f" and looks only at {'its references' if refs and not edges else 'neither its references nor its incoming edges' if not refs else 'its edges'}" if not (edges and refs) else "")
                             + ": whatever still points at it - an incoming call/branch edge of a proxy whose last *symbol* went away, functionBlocks/functionEntries rows of a stub block - "
                             "now points outside the module and the IR no longer survives a protobuf round trip", key=f"{q}::detach::{src(t)}")
    missing = set(_RETIREMENT_SITES) - seen
    if missing:
        raise AnalysisError(f"retirement site(s) not found: {sorted(missing)}")


_ALIGNMENT_REMOVERS = {
    "_modify.edit._add_other_section_contents", "_modify.remove._remove_alignment", "_modify.join.join_blocks",
    "assembler.assembler.Assembler._remove_empty_blocks", "assembler.assembler.Assembler._convert_data_blocks", "assembler.assembler.Assembler._remove_trailing_empty_block.drop_block",
    "assembler.assembler.Assembler._remove_trailing_empty_block",
}


@rule("C10.13", ["C10", "C05"], "alignment entries are removed only for one named block that is itself being removed or folded (no sweep over the table)", 5)
def c10_13(ctx: Ctx):
    n = 0
    for q, fi in sorted(ctx.repo.funcs.items()):
        for x in walk_no_nested(fi.node):
            tgt = None
            if isinstance(x, ast.Delete):
                for t in x.targets:
                    if isinstance(t, ast.Subscript) and "alignment" in src(t.value):
                        tgt = t
            elif isinstance(x, ast.Expr) and isinstance(x.value, ast.Call) and isinstance(x.value.func, ast.Attribute) and x.value.func.attr in ("pop", "clear", "popitem") and "alignment" in src(x.value.func.value):
                tgt = x.value
            elif isinstance(x, ast.Assign) and isinstance(x.value, ast.Call) and isinstance(x.value.func, ast.Attribute) and x.value.func.attr == "pop" and "alignment" in src(x.value.func.value):
                tgt = x.value
            if tgt is None:
                continue
            n += 1
            in_loop = any(isinstance(lp, (ast.For, ast.While)) and any(y is x for y in ast.walk(lp)) and "alignment" in src(lp.iter if isinstance(lp, ast.For) else lp.test)
                          for lp in walk_no_nested(fi.node))
            ctx.check(q in _ALIGNMENT_REMOVERS and not in_loop, fi, x, f"`{src(x)[:60]}` in {q.split('.')[-1]}",
                      f"`{src(x)[:70]}` removes alignment entries " + ("in a sweep over the table" if in_loop else "at a new site") + ": the table is keyed by blocks *and* by byte intervals and sections "
                      "(join_byte_intervals honours those), so a clean-up that keeps only keys found among the module's blocks silently drops every section/interval requirement - even in a rewrite "
                      "without modifications", key=f"{q}::alignment-removal")
    if n < 5:
        raise AnalysisError(f"only {n} alignment removals found")


_ALIGNMENT_STORES = {
    "_modify.join.join_blocks": "only under `block2_align > block1_align` (the stricter one wins)",
    "assembler.assembler.Assembler._remove_empty_blocks": "max over the folded blocks (C10.6)",
    "assembler.assembler.Assembler._convert_data_blocks": "copied to the freshly created data block that replaces the code block",
    "assembler.assembler._Streamer._emit_alignment": "max(new, existing) (C10.12)",
}


@rule("C10.14", ["C10", "C05"], "a store into an alignment map never replaces a stricter requirement (reviewed sites, or `max(...)` with the existing entry, or only when absent)", 4)
def c10_14(ctx: Ctx):
    n = 0
    for q, fi in sorted(ctx.repo.funcs.items()):
        lin = None
        for st in walk_no_nested(fi.node):
            if not isinstance(st, ast.Assign):
                continue
            for t in st.targets:
                if not (isinstance(t, ast.Subscript) and "alignment" in _expanded(fi.node, t.value).lower() and not isinstance(t.slice, ast.Slice)):
                    continue
                n += 1
                if q in _ALIGNMENT_STORES:
                    ctx.ok(fi, st, f"`{src(st)[:60]}`", _ALIGNMENT_STORES[q], key=f"{q}::alignment-store")
                    continue
                m, k, v = src(t.value), src(t.slice), st.value
                keeps = isinstance(v, ast.Call) and isinstance(v.func, ast.Name) and v.func.id == "max" and any(
                    (isinstance(x, ast.Call) and isinstance(x.func, ast.Attribute) and x.func.attr == "get" and src(x.func.value) == m) or (isinstance(x, ast.Subscript) and src(x.value) == m)
                    for a in v.args for x in ast.walk(a))
                lin = lin or linear(fi.node)
                absent = False
                try:
                    absent = lin.under(lin.of(st), f"{k} not in {m}")
                except Exception:
                    pass
                ctx.check(keeps or absent, fi, st, f"`{src(st)[:60]}` keeps the stricter requirement",
                          f"`{src(st)[:80]}` overwrites whatever alignment `{k}` already has: a patch block that asked for `.align 16` and now starts where a weaker-aligned block used to be is "
                          "recorded (and padded) for the weaker value only", key=f"{q}::alignment-store")
    if n < 4:
        raise AnalysisError(f"only {n} alignment stores found")


@rule("GEN.byteorderliteral", ALL_PROPS, "integers are converted to/from bytes with the target's byte order, never a literal one", 1, scoped=True)
def gen_byteorderliteral(ctx: Ctx):
    n = 0
    for q, fi in sorted(ctx.repo.funcs.items()):
        for c in calls_in(fi.node):
            if isinstance(c.func, ast.Attribute) and c.func.attr in ("to_bytes", "from_bytes"):
                n += 1
                lits = [a for a in list(c.args) + [k.value for k in c.keywords] if isinstance(a, ast.Constant) and a.value in ("little", "big")]
                ctx.check(not lits, fi, c, f"`{src(c)[:60]}`",
                          f"`{src(c)[:70]}` fixes the byte order in the source: the package assembles for big-endian MIPS32 as well, where a constant `.word 0x11223344` must come out as "
                          "11 22 33 44", key=f"{q}::byteorder-literal")
    if n < 4 and "fixture" not in ctx.repo.mods:
        raise AnalysisError(f"only {n} to_bytes/from_bytes calls found")


round7._FIXTURE += '''

def emit_word(value, size):
    return (value & 0xFFFFFFFF).to_bytes(size, "little")
'''
round7._FIXTURE_EXPECT["GEN.byteorderliteral"] = "emit_word"


@rule("GEN.overwritemerge", ALL_PROPS, "an entry moved to another key of the same mapping is merged with, not written over, what that key already holds", 1, scoped=True)
def gen_overwritemerge(ctx: Ctx):
    n = 0
    for q, fi in sorted(ctx.repo.funcs.items()):
        fn = fi.node
        moved: Dict[str, Tuple[str, str]] = {}   # local name -> (mapping, source key)
        for a in walk_no_nested(fn):
            if isinstance(a, ast.Assign) and len(a.targets) == 1 and isinstance(a.targets[0], ast.Name):
                v = a.value
                if isinstance(v, ast.Call) and isinstance(v.func, ast.Attribute) and v.func.attr == "pop" and v.args:
                    if len(v.args) > 1 and isinstance(v.args[1], ast.Constant) and isinstance(v.args[1].value, (int, float)) and not isinstance(v.args[1].value, bool):
                        continue   # a scalar (an alignment, a count): replacing one number by another is the merge
                    moved[a.targets[0].id] = (src(v.func.value), src(v.args[0]))
                elif isinstance(v, ast.Subscript) and not isinstance(v.slice, ast.Slice):
                    moved[a.targets[0].id] = (src(v.value), src(v.slice))
        if not moved:
            continue
        lin = None
        for st in walk_no_nested(fn):
            if not (isinstance(st, ast.Assign) and len(st.targets) == 1 and isinstance(st.targets[0], ast.Subscript) and isinstance(st.value, ast.Name) and st.value.id in moved):
                continue
            d, k2 = src(st.targets[0].value), src(st.targets[0].slice)
            d0, k1 = moved[st.value.id]
            if d != d0 or k1 == k2:
                continue
            n += 1
            lin = lin or linear(fn)
            absent = False
            try:
                absent = lin.under(lin.of(st), f"{k2} not in {d}")
            except Exception:
                pass
            ctx.check(absent, fi, st, f"`{src(st)[:60]}` (value taken from `{d}[{k1}]`)",
                      f"`{src(st)[:70]}` moves the entry of `{k1}` onto `{k2}` by plain assignment: whatever `{d}` already held for `{k2}` is lost (two labels at one position: the first was merged "
                      "into the block earlier, the second is dropped from the index here and stays bound to a block that is in no section)", key=f"{q}::overwritemerge::{d}")
    ctx.ok(ctx.repo.mod("rewriting"), None, f"{n} intra-mapping moves examined", nontrivial=False, key="GEN.overwritemerge::scan")


round7._FIXTURE += '''

def rehome(index, old_block, new_block):
    syms = index.pop(old_block, None)
    if not syms:
        return
    index[new_block] = syms
'''
round7._FIXTURE_EXPECT["GEN.overwritemerge"] = "rehome"


@rule("C16.17", ["C16"], "leafFunctions is written only where a function is classified from its CFG (`_update_leaf_functions`)", 1)
def c16_17(ctx: Ctx):
    n = 0
    for q, fi in sorted(ctx.repo.funcs.items()):
        for st in walk_no_nested(fi.node):
            if isinstance(st, (ast.Assign, ast.AugAssign)):
                for t in (st.targets if isinstance(st, ast.Assign) else [st.target]):
                    if isinstance(t, ast.Subscript) and "leaf_functions" in src(t.value):
                        n += 1
                        ctx.check(q == "rewriting.RewritingContext._update_leaf_functions", fi, st, f"`{src(st)[:60]}` in {q.split('.')[-1]}",
                                  f"`{src(st)[:70]}` records a leaf verdict outside _update_leaf_functions: later contexts only classify functions that are *missing* from the table, so a verdict "
                                  "written before the function's body exists (a freshly inserted stub marked 'not a leaf') is trusted for ever - a patch in that leaf function then gets no "
                                  "red-zone skip", key=f"{q}::leaf-table-store")
    if n < 1:
        raise AnalysisError("no store into the leafFunctions table found")


@rule("C10.15", ["C10", "C08", "C02", "C06"], "are_joinable refuses a join for the eleven reviewed reasons only", 11)
def c10_15(ctx: Ctx):
    fi = ctx.repo.func("_modify.join.are_joinable")
    lin = linear(fi.node)
    reviewed = {
        "block types do not match", "blocks are not in the same byte interval", "blocks are not in a module", "block2 does not immediately follow block1",
        "block2 has a required aligment", "block2 has symbols referring to it", "block1 has symbols referring to its end", "block1 has outgoing edges",
        "block2 has incoming edges", "blocks are not in the same function", "block2 is the entry block of the function",
    }
    seen: Dict[str, int] = {}
    for g in lin.stmts:
        if isinstance(g.node, ast.Return) and isinstance(g.node.value, ast.Call) and g.node.value.args and isinstance(g.node.value.args[0], ast.Constant) and g.node.value.args[0].value is False:
            why = g.node.value.args[1].value if len(g.node.value.args) > 1 and isinstance(g.node.value.args[1], ast.Constant) else src(g.node)
            seen[why] = seen.get(why, 0) + 1
            ctx.check(why in reviewed and seen[why] == 1, fi, g.node, f"refusal: {why}",
                      f"a further refusal (`{why}`) was added: a refused join is not an error - _cleanup_modified_blocks falls back to remove_block for the empty block, which keeps only "
                      "startproc/endproc/remember/restore and re-homes labels by the deletion rules, so CFI directives at offset 0 of a function-less block disappear although nothing was deleted",
                      key=f"are_joinable::refusal::{why}::{seen[why]}")


@rule("C20.14", ["C20", "C02", "C09"], "retarget_references hangs both reference trees of the source block under the target's start- or end-root on every path that retargets", 3)
def c20_14(ctx: Ctx):
    fi = ctx.repo.func("_modify.cache.ReferenceCache.retarget_references")
    lin = linear(fi.node)
    adds = [(g, c) for g, c in lin.all_calls() if src(c.func) == "target_ref.children.add"]
    rets = [g for g in lin.stmts if isinstance(g.node, ast.Return)]
    sel = [g for g in lin.stmts if isinstance(g.node, ast.Assign) and src(g.node.targets[0]) == "target_ref"]
    if len(adds) < 2 or not sel:
        raise AnalysisError("retarget_references: attachment of the two trees under target_ref not found")
    first_add = min(g.index for g, _ in adds)
    late = [r for r in rets if r.index > min(s.index for s in sel) - 50 and r.index < first_add and not lin.under(r, "not any(block.references)")]
    ctx.check(not late and all(g.nest == 0 for g, _ in adds) and {src(c.args[0]) for _, c in adds} >= {"start_refs", "end_refs"}, fi, (late[0].node if late else adds[0][1]),
              "both trees are attached, unconditionally, once the block is known to have references",
              "a path leaves before (or without) `target_ref.children.add(start_refs/end_refs)`: the symbols were already made indirect (`symbol.referent = None`, filed under the source block's "
              "nodes), and a shortcut that files them elsewhere ignores which of the two trees they sit in - an end-of-block label of a wholly deleted block comes back as an end-of-block label of "
              "the next block instead of its start", key="retarget_references::both-trees-attached")
    # the root is chosen by at_end: [1] for the end, [0] for the start
    picks = {(src(g.node.value)[-3:], lin.under(g, "at_end")) for g in sel}
    ctx.check(("[1]", True) in picks and any(p[0] == "[0]" and not p[1] for p in picks), fi, sel[0].node, "target root: end-root iff at_end", "the choice of the target root changed",
              key="retarget_references::root-by-at_end")
    ctx.ok(fi, fi.node, f"{len(rets)} return statement(s), the only one before the attachment is the no-references exit", key="retarget_references::returns")


@rule("C02.8", ["C02", "C05", "C08", "C10"], "_cleanup_modified_blocks only removes an empty block after the join with its predecessor was refused", 1)
def c02_8(ctx: Ctx):
    fi = ctx.repo.func("_modify.edit._cleanup_modified_blocks")
    lin = linear(fi.node)
    joins = [g for g, c in lin.all_calls() if src(c.func) == "join_blocks" and g.loops]
    rems = [g for g, c in lin.all_calls() if src(c.func) == "remove_block" and g.loops]
    if len(joins) != 1 or not rems:
        raise AnalysisError("_cleanup_modified_blocks: join/remove steps of the fixed-point loop not found")
    early = [g for g in rems if g.index < joins[0].index]
    ctx.check(not early, fi, (early or rems)[0].node, "inside the loop `join_blocks` is attempted before any `remove_block`",
              "an empty block is removed without trying to join it back first: split_block parks a block's end-of-block labels on the empty remainder; a join returns them to the end of the "
              "edited block, a removal slides them to the start of the *following* block - the same address until that block is deleted with retarget_to_proxy in the same apply(), after "
              "which the edited block's end label refers to the external proxy", key="_cleanup_modified_blocks::join-before-remove")


@rule("C17.13", ["C17", "C16", "C07"], "rendering a patch (`get_asm`) does not write to the patch object or its arguments: one object is rendered at many insertion points", 3)
def c17_13(ctx: Ctx):
    n = 0
    for q, fi in sorted(ctx.repo.funcs.items()):
        if fi.node.name != "get_asm" or fi.cls is None:
            continue
        n += 1
        stores = [st for st in walk_no_nested(fi.node) if isinstance(st, (ast.Assign, ast.AugAssign))
                  and any(isinstance(a, ast.Attribute) and isinstance(a.ctx, ast.Store) for t in (st.targets if isinstance(st, ast.Assign) else [st.target]) for a in ast.walk(t))]
        ctx.check(not stores, fi, stores[0] if stores else fi.node, f"{q.split('.')[-2]}.get_asm writes no attribute",
                  (f"`{src(stores[0])[:70]}` changes state that outlives this rendering: the same patch object is asked for its assembly at every insertion point and in later rewrites. A value "
                   "parked on the object (an evaluated argument, a rendered text) is what the next site gets whenever the restore is skipped - a later argument callable raises or declines - "
                   "or the state it was computed from has changed (a renamed symbol)") if stores else "", key=f"{q}::get_asm-pure")
    if n < 3:
        raise AnalysisError(f"only {n} get_asm methods found")


@rule("C13.10", ["C13", "C12"], "every assembler error caught by the callback wrapper is reported to the diagnostic callback (which also records had_error) or re-raised", 1)
def c13_10(ctx: Ctx):
    outer = ctx.repo.func("assembler.assembler._convert_errors_and_return")
    n = 0
    for h in [x for x in ast.walk(outer.node) if isinstance(x, ast.ExceptHandler)]:
        n += 1
        body = h.body
        # every `return` in the handler must come after an `issue_diagnostic(...)` test that guards it
        bad = None
        for st in body:
            for r in [x for x in ast.walk(st) if isinstance(x, ast.Return)]:
                guarded = isinstance(st, ast.If) and "issue_diagnostic" in src(st.test) and any(y is r for b in st.body for y in ast.walk(b))
                if not guarded:
                    bad = bad or r
        ctx.check(bad is None and isinstance(body[-1], ast.Raise), outer, bad or h, "handler: `return error_ret` only after issue_diagnostic() accepted the error, otherwise re-raise",
                  "an error is swallowed without going through issue_diagnostic: that call is also what sets `had_error`, which is reset on every assemble() - a later chunk that refers to the same "
                  "unknown name produces no diagnostic, assemble() returns True and the instruction is silently dropped, although assembling the concatenated text is refused",
                  key="_convert_errors_and_return::always-reported")
    if n < 1:
        raise AnalysisError("_convert_errors_and_return: exception handler not found")


@rule("C20.15", ["C20", "C04"], "OffsetMapping accessors that take a default do not subscript the element table before the element is known to be there", 2)
def c20_15(ctx: Ctx):
    ci = ctx.repo.cls("_adt.offset_mapping.OffsetMapping")
    n = 0
    for name, m in sorted(ci.methods.items()):
        a = m.node.args
        has_default = any(x.arg == "default" for x in a.args + a.kwonlyargs) or (a.vararg is not None and a.vararg.arg in ("default", "args"))
        if not has_default:
            continue
        n += 1
        lin = linear(m.node)
        bad = None
        for g in lin.stmts:
            for x in ast.walk(g.node) if not isinstance(g.node, (ast.If, ast.For, ast.While, ast.Try, ast.With, ast.FunctionDef)) else []:
                if isinstance(x, ast.Subscript) and isinstance(x.ctx, ast.Load) and src(x.value) == "self._data":
                    k = src(x.slice)
                    ok = False
                    try:
                        ok = lin.under(g, f"{k} in self._data")
                    except Exception:
                        pass
                    if not ok:
                        bad = bad or (g, x)
        ctx.check(bad is None, m, bad[0].node if bad else m.node, f"OffsetMapping.{name}: no unguarded `self._data[...]` ahead of the default",
                  (f"`{src(bad[1])}` is evaluated before the default is considered: for an Offset whose element was never stored the subscript raises KeyError, so `{name}(Offset(e, d), default)` "
                   "raises instead of returning the default - unlike a dict of dicts and unlike every other accessor of the class") if bad else "", key=f"OffsetMapping.{name}::default-before-subscript")
    if n < 2:
        raise AnalysisError(f"only {n} OffsetMapping accessors with a default found")


_CONTENTS_WRITERS = {
    "_modify.edit.edit_byte_interval": "the splice primitive (C01.1, C01.9: honours offsets beyond the initialized bytes)",
    "intervalutils.split_byte_interval": "cuts an interval's tail off into a new interval",
    "intervalutils.join_byte_intervals": "appends an interval (uninitialized tail filled first)",
    "intervalutils.join_byte_intervals.insert_padding": "appends padding",
}


@rule("C01.10", ["C01", "C04", "C05"], "the bytes of an existing byte interval are written by the splice primitive and the interval split/join utilities only", 3)
def c01_10(ctx: Ctx):
    n = 0
    for q, fi in sorted(ctx.repo.funcs.items()):
        for st in walk_no_nested(fi.node):
            if isinstance(st, (ast.Assign, ast.AugAssign)):
                for t in (st.targets if isinstance(st, ast.Assign) else [st.target]):
                    if isinstance(t, ast.Attribute) and t.attr == "contents":
                        n += 1
                        ctx.check(q in _CONTENTS_WRITERS, fi, st, f"`{src(st)[:50]}` in {q.split('.')[-1]}",
                                  f"`{src(st)[:70]}` writes a byte interval's contents outside the splice primitive: `contents` holds the *initialized* bytes only, so a slice assignment at an offset "
                                  "beyond them appends at the wrong place (and the offset-keyed expressions, aux entries and block offsets that edit_byte_interval keeps in step are not touched)",
                                  key=f"{q}::contents-store")
    if n < 3:
        raise AnalysisError(f"only {n} stores to `.contents` found")


@rule("C01.11", ["C01", "C10", "C02"], "a partial deletion never removes the original block object: only the middle block that split_block created leaves the interval", 1)
def c01_11(ctx: Ctx):
    fi = ctx.repo.func("_modify.edit.delete")
    fn = fi.node
    lin = linear(fn)
    params = [a.arg for a in fn.args.args]
    if "block" not in params:
        raise AnalysisError("delete(): parameter `block` not found")
    # flow-insensitive may-alias of names with the parameter `block`.  split_block(cache, Y, off) returns (Y itself, a fresh tail, flag).
    alias: Dict[str, bool] = {"block": True}
    changed = True
    while changed:
        changed = False
        for st in walk_no_nested(fn):
            if not isinstance(st, ast.Assign) or len(st.targets) != 1:
                continue
            t, v = st.targets[0], st.value
            if isinstance(t, ast.Name) and isinstance(v, ast.Name) and alias.get(v.id) and not alias.get(t.id):
                alias[t.id] = True
                changed = True
            if isinstance(t, ast.Tuple) and isinstance(v, ast.Call) and src(v.func) == "split_block" and len(v.args) >= 2 and isinstance(v.args[1], ast.Name) and t.elts and isinstance(t.elts[0], ast.Name):
                if alias.get(v.args[1].id) and not alias.get(t.elts[0].id):
                    alias[t.elts[0].id] = True
                    changed = True
    rems = [(g, c) for g, c in lin.all_calls() if src(c.func) == "remove_block" and len(c.args) >= 2 and isinstance(c.args[1], ast.Name)]
    partial = []
    for g, c in rems:
        try:
            if lin.under(g, "length != block.size"):
                partial.append((g, c))
        except Exception:
            pass
    if not partial:
        raise AnalysisError("delete(): remove_block call of the partial-deletion branch not found")
    for g, c in partial:
        x = c.args[1].id
        ctx.check(not alias.get(x), fi, c, f"partial deletion removes `{x}`, a block created by split_block",
                  f"`{x}` can be the very block object the caller passed in (it reaches here as the head that split_block returns unchanged): remove_block treats it as a block that disappears - "
                  "its alignment entry is dropped, its symbols, entry-point and CFI rows are re-homed by the deletion rules - although part of its bytes survive in a new, unaligned block",
                  key="delete::partial-removes-fresh-block")
