"""
Rules added after the fourth round of independently seeded changes (the ones
the rule set of that moment missed). DESIGN.md section 10.6 lists the miss that
motivated each.
"""

from __future__ import annotations

import ast
from typing import Dict, List, Set

from ..astx import TRUE, calls_in, canon, f_atoms, f_show, implies, linear, single_assign_value, src, walk_no_nested
from ..core import AnalysisError, Ctx, rule
from .round4 import _atoms


@rule("C05.11", ["C05", "C08", "C13", "C06", "C04"], "insert() carries every product of the patch into the module unconditionally, for every code block of the patch", 8)
def c05_11(ctx: Ctx):
    fi = ctx.repo.func("_modify.edit.insert")
    lin = linear(fi.node)
    carries = {
        "blocks": "bi.blocks.update(text_section.blocks)",
        "CFG edges": "cfg.update(code.cfg)",
        "symbols": "module.symbols.update(code.symbols)",
        "proxies": "module.proxies.update(code.proxies)",
        "alignment": "alignment_table.update(text_section.alignment.items())",
        "block encodings": "encodings_table.update(text_section.block_types.items())",
        "CFI directives": "cfi_table.update(code.create_cfi_directives())",
    }
    for what, text in carries.items():
        gs = [g for g, c in lin.all_calls() if src(c) == text]
        ok = len(gs) == 1 and implies(TRUE, gs[0].guard) and not gs[0].loops
        ctx.check(ok, fi, gs[0].node if gs else fi.node, f"{what} of the patch reach the module whatever kind of block the patch goes into",
                  f"`{text}` is {'missing' if not gs else 'only executed under ' + f_show(gs[0].guard)[:80]}: for a patch inserted at a *data* block (a jump table inside a procedure, a "
                  f"label defined in a data patch) the {what} never arrive - directives vanish, a later patch cannot reference the label (UndefSymbolError) or defines it a second time unnoticed",
                  key=f"insert::carry::{what}")
    # function membership loop: no early exit
    adds = [(g, c) for g, c in lin.all_calls() if src(c.func) == "add_function_block_aux"]
    if len(adds) != 1 or not adds[0][0].loops:
        raise AnalysisError("insert(): function-membership loop not found")
    lp = adds[0][0].loops[-1]
    exits = [x for st in lp.body for x in ast.walk(st) if isinstance(x, (ast.Break, ast.Return))]
    ctx.check(not exits, fi, exits[0] if exits else lp, "the function-membership loop visits every block of the patch",
              "the loop leaves at the first non-code block: patch code that follows inline data (`jmp .Lover; .byte 0xCC; .Lover: nop`) is in no function",
              key="insert::function-membership-no-break")


@rule("C06.9", ["C06", "C02"], "the zero-sized-predecessor clean-up of delete() is an ordinary removal and is skipped for proxy deletions", 1)
def c06_9(ctx: Ctx):
    fi = ctx.repo.func("_modify.edit.delete")
    lin = linear(fi.node)
    calls = [(g, c) for g, c in lin.all_calls() if src(c.func) == "remove_block" and c.args and len(c.args) >= 2 and src(c.args[1]) == "prev_block"]
    if len(calls) != 1:
        raise AnalysisError("delete(): clean-up of the zero-sized predecessor not found")
    g, c = calls[0]
    ok = lin.under(g, "not retarget_to_proxy") and lin.under(g, "deleted") and not c.keywords and len(c.args) == 2
    ctx.check(ok, fi, c, "remove_block(cache, prev_block) only after a real, non-proxy deletion, without a proxy flag",
              f"called as `{src(c)}` under `{f_show(g.guard)[:90]}`: with retarget_to_proxy the predecessor - possibly the zero-sized entry block of *another* function - is removed in proxy mode, "
              "its name symbol moves to a proxy, nothing is promoted and functionEntries of that function becomes empty while its code survives",
              key="delete::prev-cleanup-not-for-proxy")


@rule("C10.8", ["C10", "C05"], "are_joinable refuses to absorb a block that carries any alignment requirement", 2)
def c10_8(ctx: Ctx):
    from ..effects import predicate_formula
    from .c06 import _strip_implies

    repo = ctx.repo
    fi = repo.func("_modify.join.are_joinable")
    pf = predicate_formula(repo, fi)
    if pf is None:
        raise AnalysisError("are_joinable: not a boolean cascade")
    lin = linear(fi.node)
    v = single_assign_value(fi.node, "alignment")
    ctx.check(v is not None and src(v) == "alignment_data.get(block2, 1)", fi, v or fi.node, "`alignment` is block2's entry (default 1)", f"alignment = {src(v) if v else '?'}", key="C10.8::alignment-of-block2")
    pre = "block1.size and type(block1) is type(block2) and block1.byte_interval is block2.byte_interval and module and block1.offset + block1.size == block2.offset and "
    cond = lin.cond(ast.parse(pre + "alignment_data and alignment != 1", mode="eval").body, {})
    ctx.check(_strip_implies(cond, pf, negate=True), fi, fi.node, "refuses (non-empty block1): block2 has an alignment entry other than 1",
              "are_joinable can return true although block2 has an alignment requirement (for instance whenever block1's own requirement is at least as strict): join_blocks then drops "
              "block2's entry and the `.align N` inside a patch (`nop; .align 4; nop`) is silently lost",
              key="C10.8::refuses-aligned-block2")


@rule("C13.6", ["C13"], "every MC symbol named by a directive is resolved through _resolve_symbol (error or exactly one proxy-backed symbol)", 1)
def c13_6(ctx: Ctx):
    fi = ctx.repo.func("assembler.assembler._Streamer.emit_symbol_attribute")
    calls = [c for c in calls_in(fi.node) if src(c.func) == "self._emit_elf_symbol_attribute"]
    if len(calls) != 1 or not calls[0].args:
        raise AnalysisError("emit_symbol_attribute: ELF branch not found")
    a = calls[0].args[0]
    if isinstance(a, ast.Name):
        a = single_assign_value(fi.node, a.id) or a
    ok = isinstance(a, ast.Call) and src(a.func) == "self._resolve_symbol"
    rets_true = [r for r in walk_no_nested(fi.node) if isinstance(r, ast.Return) and isinstance(r.value, ast.Constant) and r.value.value is True]
    ctx.check(ok and not rets_true, fi, calls[0], ".globl/.weak/.hidden/.type resolve their symbol with _resolve_symbol",
              f"the attribute is applied to `{src(a)[:60]}`{' and an unknown name is accepted with `return True`' if rets_true else ''}: `.weak ext` for a name that is neither defined nor in the module "
              "raises no UndefSymbolError, and with allow_undef_symbols it neither creates nor binds the single proxy-backed symbol (the binding is lost)",
              key="emit_symbol_attribute::resolve")


@rule("C16.11", ["C16"], "the scratch-register count is checked against the pool that is left after clobbers and read-registers were taken out", 1)
def c16_11(ctx: Ctx):
    fi = ctx.repo.func("abi.ABI._allocate_patch_registers")
    lin = linear(fi.node)
    chk = [g for g in lin.stmts if isinstance(g.node, ast.Raise) and "unable to allocate enough scratch registers" in src(g.node)]
    removes = [g for g, c in lin.all_calls() if src(c.func) == "available_scratch_registers.remove"]
    if len(chk) != 1 or len(removes) < 2:
        raise AnalysisError("_allocate_patch_registers: check/removals not found")
    late = [g for g in removes if g.index > chk[0].index]
    ctx.check(not late, fi, chk[0].node, "the 'not enough scratch registers' check comes after every removal from the pool",
              f"the count is compared before `{src(late[0].node)[:60] if late else ''}` (line {late[0].node.lineno if late else 0}) shrinks the pool: with reads_registers and scratch_registers both set the "
              "request passes the check, the slice then returns fewer registers than asked for, and the patch runs with a short scratch list instead of being refused",
              key="_allocate_patch_registers::check-after-removals")
    sl = single_assign_value(fi.node, "scratch_registers")
    ctx.check(sl is not None and src(sl).replace(" ", "") == "available_scratch_registers[:constraints.scratch_registers]", fi, sl or fi.node,
              "the scratch registers are the first N of the remaining pool", f"scratch_registers = {src(sl) if sl else '?'}", key="_allocate_patch_registers::prefix")


@rule("C17.9", ["C17"], "every CallPatch gets its own calling-convention object, and CallingConventionDesc keeps its positional field order", 6)
def c17_9(ctx: Ctx):
    repo = ctx.repo
    n = 0
    for q, fi in sorted(repo.funcs.items()):
        if q.startswith("abi.") and fi.name == "calling_convention" and fi.cls is not None:
            n += 1
            decs = fi.decorators()
            cached = [d for d in decs if "cache" in d]
            ctx.check(not cached, fi, fi.node, f"{fi.cls.name}.calling_convention() builds a fresh description on every call",
                      f"decorated with `{cached[0] if cached else ''}`: the ABI objects are singletons, so every default-convention CallPatch shares one mutable CallingConventionDesc - a caller that "
                      "adapts the returned description for a private callee (registers, shadow_space=0, caller_cleanup=False) silently changes every other default call, in every module",
                      key=f"{q}::fresh-object")
    if n < 4:
        raise AnalysisError(f"only {n} calling_convention() implementations found")
    cls = repo.cls("abi.CallingConventionDesc")
    fields = [s.target.id for s in cls.node.body if isinstance(s, ast.AnnAssign) and isinstance(s.target, ast.Name)]
    defaults = [s.target.id for s in cls.node.body if isinstance(s, ast.AnnAssign) and isinstance(s.target, ast.Name) and s.value is not None]
    want = ["registers", "stack_alignment", "caller_cleanup", "shadow_space"]
    ctx.check(fields == want and defaults == ["shadow_space"], cls.mod, cls.node, f"CallingConventionDesc({', '.join(want)}=0)",
              f"fields are {fields} (defaults: {defaults}): the class is public and constructed positionally by users - CallingConventionDesc(regs, 16, False, 32) would now mean "
              "shadow_space=False, caller_cleanup=32: no shadow space is reserved and the stack is cleaned up for a callee-cleanup convention",
              key="CallingConventionDesc::field-order")


@rule("C20.10", ["C20", "C09"], "container updates: a refused insertion changes nothing; cache sets are updated in place; a self-retarget keeps the block's references; deleting an Offset keeps the element", 5)
def c20_10(ctx: Ctx):
    repo = ctx.repo
    # 1. BlockOrdering._primitive_insert validates everything before it links anything
    pi = repo.func("_adt.block_ordering.BlockOrdering._primitive_insert")
    lin = linear(pi.node)
    raises = [g for g in lin.stmts if isinstance(g.node, ast.Raise)]
    links = [g for g, c in lin.all_calls() if isinstance(c.func, ast.Attribute) and c.func.attr == "insert_node_after"] + \
        [g for g in lin.stmts if isinstance(g.node, ast.Assign) and src(g.node.targets[0]).startswith("self.__order[")]
    if not raises or not links:
        raise AnalysisError("_primitive_insert: validation/linking not found")
    ok = all(r.index < min(l.index for l in links) and not (set(r.loops) & {lp for l in links for lp in l.loops}) for r in raises)
    ctx.check(ok, pi, raises[0].node, "all blocks are validated before the first one is linked in",
              "the 'already ordered' check sits in the loop that links the blocks: when the offending block is not the first of the run, the blocks before it are already linked in when "
              "ValueError is raised - the ordering is changed by a refused call and a retry is refused for them",
              key="_primitive_insert::validate-then-link")
    dup = any(isinstance(n, ast.Name) and n.id in ("seen", "seen_blocks") for n in ast.walk(pi.node)) or "len(set(" in src(pi.node) or "IdentitySet" in src(pi.node)
    ctx.check(dup, pi, raises[0].node, "a block that appears twice in one call is refused like one that is already ordered",
              "the duplicate check compares the new blocks with `self.__order` only: add_detached_blocks([a, a, b]) links two nodes for `a`, the index keeps the second, and the first can never be "
              "removed (adjacent_blocks(b) keeps answering `a` after remove_block(a))",
              key="_primitive_insert::in-call-duplicates")
    # 2. ReturnEdgeCache._dict_set_discard mutates the stored set
    dd = repo.func("_modify.cache.ReturnEdgeCache._dict_set_discard")
    t = " ".join(src(dd.node).split())
    in_place = any(isinstance(c.func, ast.Attribute) and c.func.attr in ("discard", "remove") and isinstance(c.func.value, ast.Name) for c in calls_in(dd.node))
    stored_back = any(isinstance(n, ast.Assign) and src(n.targets[0]) == "setdict[key]" for n in ast.walk(dd.node))
    v = single_assign_value(dd.node, "value_set")
    alias = v is not None and src(v) == "setdict[key]"
    ctx.check((in_place and alias) or stored_back, dd, dd.node, "the reduced set is the one the cache keeps (in-place discard on the stored set, or stored back)",
              f"`value_set = {src(v) if v else '?'}` is a new set that is never stored back: discarding one of several return edges of a block removes it from the CFG but leaves it in the "
              "cache, so later consumers in the same apply() see stale return edges",
              key="_dict_set_discard::in-place")
    # 3. retarget_references: source trees are detached before the target entry is looked up / created
    rr = repo.func("_modify.cache.ReferenceCache.retarget_references")
    lr = linear(rr.node)
    pops = [g for g, c in lr.all_calls() if src(c) == "self._references.pop(block)"]
    tgt = [g for g in lr.stmts if isinstance(g.node, ast.Assign) and src(g.node.targets[0]) in ("self._references[to_block]", "target_ref")]
    if not pops or not tgt:
        raise AnalysisError("retarget_references: pop/target steps not found")
    ctx.check(all(p.index < min(t_.index for t_ in tgt) for p in pops), rr, pops[0].node, "the source block's trees are popped before the target block's entry is fetched or created",
              "the target entry is fetched first: for retarget_references(b, b, at_end) it is the very pair that is then popped, so the trees become their own children, b loses its entry "
              "and its references disappear from get_references (apply() fails its `not self._referents` assertion)",
              key="retarget_references::pop-before-target")
    # 4. OffsetMapping.__delitem__(Offset) leaves the (possibly empty) element dict in place
    dele = repo.cls("_adt.offset_mapping.OffsetMapping").methods["__delitem__"]
    offset_branch = [i for i in walk_no_nested(dele.node) if isinstance(i, ast.If) and "isinstance(key, gtirb.Offset)" in src(i.test)]
    if len(offset_branch) != 1:
        raise AnalysisError("OffsetMapping.__delitem__: Offset branch not found")
    dels = [src(t_) for st in offset_branch[0].body for n in ast.walk(st) if isinstance(n, ast.Delete) for t_ in n.targets]
    ctx.check(dels == ["self._data[elem][disp]"], dele, offset_branch[0], "del m[Offset(e, d)] removes exactly that displacement (like `del d[e][d]` on a dict of dicts)",
              f"the Offset branch deletes {dels}: removing the last Offset of an element also drops the element, so `e in m`, `m[e]` and node_keys() differ from the dictionary-of-dictionaries model "
              "and a displacement dict obtained earlier through m[e] is detached (writes through it are lost)",
              key="OffsetMapping.__delitem__::keeps-element")


@rule("C12.13", ["C12", "C03"], "typed values get a block of their own; edges into a folded empty block are re-homed unless their source is folded too", 3)
def c12_13(ctx: Ctx):
    repo = ctx.repo
    fi = repo.func("assembler.assembler._Streamer._emit_value_with_encoding")
    lin = linear(fi.node)
    splits = [g for g, c in lin.all_calls() if src(c) == "self._split_block()"]
    typ = [g for g in lin.stmts if isinstance(g.node, ast.Assign) and src(g.node.targets[0]) == "self._state.block_types[self._state.current_block]"]
    emits = [g for g, c in lin.all_calls() if src(c.func) in ("self.emit_value_impl", "self._append_data")]
    if len(typ) != 1 or not emits:
        raise AnalysisError("_emit_value_with_encoding: steps not found")
    ok = len(splits) == 2 and all(g.top for g in splits) and splits[0].index < min(e.index for e in emits) and splits[1].index > typ[0].index
    ctx.check(ok, fi, fi.node, "split unconditionally before the value is emitted and again after its type was recorded",
              f"{len(splits)} split(s), conditions {[f_show(g.guard)[:50] for g in splits]}: a `.string`/`.uleb128` value that directly follows an instruction or plain data is appended to the "
              "existing block - string bytes end up inside a CodeBlock (it no longer decodes to the instructions written) or the encoded block also covers the preceding bytes",
              key="_emit_value_with_encoding::own-block")
    fr = repo.func("assembler.assembler.Assembler._remove_empty_blocks")
    lr = linear(fr.node)
    adds = [(g, c) for g, c in lr.all_calls() if src(c) == "self._state.cfg.add(edge._replace(target=main_block))"]
    if len(adds) != 1:
        raise AnalysisError("_remove_empty_blocks: re-homing of in-edges not found")
    atoms = _atoms(adds[0][0].guard)
    ok = atoms == ["edge.source in extra_blocks"] and lr.under(adds[0][0], "edge.source not in extra_blocks")
    ctx.check(ok, fr, adds[0][1], "every in-edge whose source is not itself folded is redirected to the surviving block",
              f"re-homing condition is {atoms}: a Fallthrough from a real predecessor into an empty label block (`call f` / `lbl:`) is dropped instead of redirected, so the call/jcc block "
              "loses its fallthrough",
              key="_remove_empty_blocks::rehome-in-edges")
    disc = [(g, c) for g, c in lr.all_calls() if src(c) == "self._state.cfg.discard(edge)"]
    ctx.check(len(disc) == 2, fr, fr.node, "old in- and out-edges of a folded block are discarded", "discards changed", key="_remove_empty_blocks::discards")


def _equiv(lin, got_expr: ast.AST, want_text: str, at=None) -> bool:
    want = ast.parse(want_text, mode="eval").body
    a = lin.cond_at(at, got_expr) if at is not None else lin.cond(got_expr, {})
    b = lin.cond_at(at, want) if at is not None else lin.cond(want, {})
    return implies(a, b) and implies(b, a)


def _guard_in_loop_is(lin, g, want_text: str) -> bool:
    """Is the guard of g, relative to the entry of its innermost loop body, equivalent to `want_text`?
    (Independent of how the conditions are spread over nested ifs.)"""
    from ..astx import f_and

    if not g.loops:
        return False
    body0 = lin.of(g.loops[-1].body[0])
    want = lin.cond_at(g, ast.parse(want_text, mode="eval").body)
    full = f_and(body0.guard, want)
    return implies(g.guard, full) and implies(full, g.guard)


@rule("C03.16", ["C03", "C06", "C01", "C07"], "edge filters of join and of return-edge bookkeeping are exactly the stated predicates (test-suite-surviving mutants)", 7)
def c03_16(ctx: Ctx):
    repo = ctx.repo
    fj = repo.func("_modify.join.are_joinable")
    lj = linear(fj.node)
    specs = {
        "any_out_edges": ("block1.outgoing_edges", "not _is_fallthrough_edge(edge) or edge.target != block2", "an out-edge of block1 other than the fallthrough into block2"),
        "falls_through": ("block1.outgoing_edges", "_is_fallthrough_edge(edge) and edge.target == block2", "the fallthrough from block1 into block2"),
        "any_in_edges": ("block2.incoming_edges", "not _is_fallthrough_edge(edge) or edge.source != block1", "an in-edge of block2 other than the fallthrough from block1"),
    }
    for var, (over, filt, what) in specs.items():
        v = single_assign_value(fj.node, var)
        gen = v.args[0] if isinstance(v, ast.Call) and src(v.func) == "any" and v.args and isinstance(v.args[0], ast.GeneratorExp) else None
        ok = gen is not None and len(gen.generators) == 1 and src(gen.generators[0].iter) == over and len(gen.generators[0].ifs) == 1 and _equiv(lj, gen.generators[0].ifs[0], filt)
        ctx.check(ok, fj, v or fj.node, f"`{var}` = there is {what}",
                  f"`{var} = {src(v)[:110] if v else '?'}` does not select exactly the edges that are {what}: blocks with a real terminator are merged (a control transfer buried "
                  "mid-block) or joinable blocks are kept apart",
                  key=f"are_joinable::{var}")
    jb = repo.func("_modify.join.join_blocks")
    ljb = linear(jb.node)
    disc = [g for g, c in ljb.all_calls() if src(c) == "ir.cfg.discard(in_edge)"]
    first = [g for g in disc if any("_is_fallthrough_edge(in_edge)" in a for a in _atoms(g.guard))]
    ok = len(first) == 1 and _guard_in_loop_is(ljb, first[0], "_is_fallthrough_edge(in_edge) and in_edge.source is block1")
    ctx.check(ok, jb, first[0].node if first else jb.node, "join_blocks drops exactly the fallthrough that connected block1 to block2",
              "the connecting-edge test changed: other incoming edges of block2 are dropped with it (or the connecting fallthrough survives as a self-loop of the joined block)",
              key="join_blocks::connecting-fallthrough")
    fe = repo.func("_modify.edges.add_return_edges_to_callee")
    le = linear(fe.node)
    skips = [g for g in le.stmts if isinstance(g.node, ast.Continue)]
    ok = len(skips) == 1 and _guard_in_loop_is(le, skips[0], "not cache.return_cache.any_return_edges(block) and not any((_is_return_edge(edge) for edge in cfg.out_edges(block)))")
    ctx.check(ok, fe, skips[0].node if skips else fe.node, "a block is skipped exactly when it returns neither in the IR nor in the patch CFG so far",
              f"skip condition is `{f_show(skips[0].guard)[:140] if skips else '?'}`", key="add_return_edges_to_callee::skip-test")
    fr = repo.func("_modify.edges.remove_return_edges_from_callee")
    lr = linear(fr.node)
    sets = [g for g in lr.stmts if isinstance(g.node, ast.Assign) and src(g.node.targets[0]) == "remaining_edges"]
    true_sets = [g for g in sets if isinstance(g.node.value, ast.Constant) and g.node.value.value is True]
    ok = len(true_sets) == 1 and lr.under(true_sets[0], "edge.target not in fallthrough_targets") and any(isinstance(g.node.value, ast.Constant) and g.node.value.value is False and len(g.loops) < len(true_sets[0].loops) for g in sets)
    ctx.check(ok, fr, true_sets[0].node if true_sets else fr.node, "`remaining_edges` becomes True exactly for a return edge that is kept",
              "the flag that records 'the callee still returns somewhere' is not set for kept edges: every removed call then adds a placeholder Return edge to a fresh proxy although "
              "other call sites remain",
              key="remove_return_edges_from_callee::remaining-flag")
    prox = [g for g, c in lr.all_calls() if src(c.func) == "gtirb.ProxyBlock"]
    ctx.check(len(prox) == 1 and lr.under(prox[0], "not remaining_edges"), fr, prox[0].node if prox else fr.node, "the placeholder proxy return is added only when no return edge is left", "proxy condition changed",
              key="remove_return_edges_from_callee::proxy-only-when-none-left")


@rule("C13.7", ["C13", "C11"], "get_or_insert_extern_symbol returns the existing symbol when the (decorated) name is already there", 2)
def c13_7(ctx: Ctx):
    fi = ctx.repo.func("rewriting.RewritingContext.get_or_insert_extern_symbol")
    lin = linear(fi.node)
    rets = [g for g in lin.stmts if isinstance(g.node, ast.Return) and g.node.value is not None and src(g.node.value) == "sym"]
    create = [g for g, c in lin.all_calls() if src(c.func) == "gtirb.Symbol"]
    if not create:
        raise AnalysisError("get_or_insert_extern_symbol: symbol creation not found")
    early = [g for g in rets if g.index < create[0].index]
    ctx.check(len(early) == 1 and lin.under(early[0], "sym") and len(_atoms(early[0].guard)) == 1, fi, early[0].node if early else fi.node, "`if sym: return sym` precedes the creation of a new symbol",
              "the early return for an existing symbol is missing or narrowed: a second symbol with the same name is created next to the module's own (which one a patch binds to then depends on set order)",
              key="get_or_insert_extern_symbol::return-existing")
    dec = [g for g in lin.stmts if isinstance(g.node, ast.Assign) and src(g.node.targets[0]) == "name" and isinstance(g.node.value, ast.Call) and src(g.node.value.func) == "decorate_extern_symbol"]
    look = [g for g in lin.stmts if isinstance(g.node, ast.Assign) and src(g.node.targets[0]) == "sym" and "self._module.symbols" in src(g.node.value)]
    ctx.check(len(dec) == 1 and look and dec[0].index < look[0].index and dec[0].top, fi, dec[0].node if dec else fi.node, "the name is decorated for the platform before it is looked up and created",
              "the platform decoration (leading underscore on IA32 PE, ...) is not applied before the lookup: the existing decorated symbol is not found and an undecorated duplicate is created",
              key="get_or_insert_extern_symbol::decorate-first")


@rule("C18.8", ["C18", "C06"], "attribute rules match on access type *and* attribute set; delete_at refuses a partial proxy deletion; SEH/CFI re-homing looks at the next block", 3)
def c18_8(ctx: Ctx):
    repo = ctx.repo
    fi = repo.func("_modify.retarget._retarget_sym_expr")
    mr = single_assign_value(fi.node, "matching_rules")
    gen = mr if isinstance(mr, (ast.ListComp, ast.GeneratorExp)) else (mr.args[0] if isinstance(mr, ast.Call) and mr.args and isinstance(mr.args[0], (ast.ListComp, ast.GeneratorExp)) else None)
    lin = linear(fi.node)
    ok = gen is not None and len(gen.generators) == 1 and len(gen.generators[0].ifs) >= 1
    if ok:
        test = gen.generators[0].ifs[0] if len(gen.generators[0].ifs) == 1 else ast.BoolOp(op=ast.And(), values=list(gen.generators[0].ifs))
        ok = _equiv(lin, test, "access_type in rule.access_types and expr.attributes == rule.get_relevant_attrs(old_defined)")
    ctx.check(ok, fi, mr or fi.node, "a rule applies iff the access type is one of its own and the attributes equal its set for A's kind",
              f"rule filter is `{src(mr)[:120] if mr else '?'}`: rules of another access type (or with other attributes) now match, so several rules match (ValueError) or the wrong conversion is applied",
              key="_retarget_sym_expr::rule-filter")
    da = repo.func("rewriting.RewritingContext.delete_at")
    ld = linear(da.node)
    r = [g for g in ld.stmts if isinstance(g.node, ast.Raise) and "retarget_to_proxy can only be specified" in src(g.node)]
    ok = len(r) == 1
    if ok:
        want = ld.cond_at(r[0], ast.parse("retarget_to_proxy and (offset != 0 or length != block.size)", mode="eval").body)
        ok = implies(r[0].guard, want) and implies(want, r[0].guard)
    ctx.check(ok, da, r[0].node if r else da.node, "retarget_to_proxy with anything but the whole block is refused with ValueError", "the validation of partial proxy deletions changed: such a request is accepted (or whole-block proxy deletions are refused)",
              key="delete_at::partial-proxy-refused")
    seh = repo.func("_modify.remove._update_pe_safe_seh")
    adds = [(g, c) for g, c in linear(seh.node).all_calls() if src(c) == "table.add(next_block)"]
    ok = len(adds) == 1 and linear(seh.node).under(adds[0][0], "isinstance(next_block, gtirb.CodeBlock)")
    ctx.check(ok, seh, adds[0][1] if adds else seh.node, "the next block inherits the safe-SEH flag only when it is a code block", "the inheriting block is not checked to be code (a data block or None is added to peSafeExceptionHandlers)",
              key="_update_pe_safe_seh::next-is-code")


def _fold_register_names(fi, inclusive_ok: bool) -> Dict[str, int]:
    """Names (of the widest view) of the Register(...) objects all_registers() builds, with multiplicity."""
    from ..region import Unknown, minieval

    out: Dict[str, int] = {}

    def add(n):
        out[n] = out.get(n, 0) + 1

    for n in ast.walk(fi.node):
        if isinstance(n, (ast.ListComp, ast.GeneratorExp, ast.SetComp)) and isinstance(n.elt, ast.Call) and src(n.elt.func) == "Register" and n.elt.args and isinstance(n.elt.args[0], ast.Dict):
            gen = n.generators[0]
            if not (isinstance(gen.iter, ast.Call) and src(gen.iter.func) == "self._inclusive_range" and isinstance(gen.target, ast.Name)):
                raise AnalysisError(f"{fi.qual}: register comprehension over {src(gen.iter)[:40]} not understood")
            lo, hi = minieval(gen.iter.args[0], {}), minieval(gen.iter.args[1], {})
            first = n.elt.args[0].values[0]
            if not isinstance(first, ast.JoinedStr):
                raise AnalysisError(f"{fi.qual}: register name template not an f-string")
            prefix = "".join(v.value for v in first.values if isinstance(v, ast.Constant))
            for i in range(lo, hi + 1):
                add(f"{prefix}{i}")
        elif isinstance(n, ast.Call) and src(n.func) == "Register" and n.args and isinstance(n.args[0], ast.Dict):
            first = n.args[0].values[0]
            if isinstance(first, ast.Constant):
                add(first.value)
            elif isinstance(first, ast.Name):
                # Register({"32": reg}, ...) inside `for reg in [literals]`
                for f in ast.walk(fi.node):
                    if isinstance(f, ast.For) and isinstance(f.target, ast.Name) and f.target.id == first.id and isinstance(f.iter, (ast.List, ast.Tuple)):
                        for e in f.iter.elts:
                            if isinstance(e, ast.Constant):
                                add(e.value)
    return out


@rule("C16.12", ["C16", "C17"], "ARM64 and MIPS32 register tables list exactly the ISA's general registers, each once (test-suite-surviving mutants)", 4)
def c16_12(ctx: Ctx):
    from ..region import Unknown, minieval

    repo = ctx.repo
    want = {
        "_ARM64_ELF": {f"x{i}" for i in range(31)},
        "_MIPS32_ELF": {f"t{i}" for i in range(10)} | {f"a{i}" for i in range(4)} | {f"s{i}" for i in range(8)} | {"v0", "v1", "k0", "k1", "at", "zero", "gp", "sp", "fp", "ra"},
    }
    for cname, w in want.items():
        ir = repo.func(f"abi.{cname}._inclusive_range")
        rets = [n for n in walk_no_nested(ir.node) if isinstance(n, ast.Return)]
        ok = len(rets) == 1 and isinstance(rets[0].value, ast.Call) and src(rets[0].value.func) == "range" and len(rets[0].value.args) == 2
        if ok:
            try:
                ok = all(minieval(rets[0].value.args[0], {"start": a, "end": b}) == a and minieval(rets[0].value.args[1], {"start": a, "end": b}) == b + 1 for a, b in ((0, 3), (2, 9)))
            except Unknown:
                ok = False
        ctx.check(ok, ir, ir.node, f"{cname}._inclusive_range(a, b) is range(a, b + 1)", f"returns `{src(rets[0].value) if rets else '?'}`: every register list built from it gains or loses its last entry",
                  key=f"{cname}::inclusive-range")
        fa = repo.func(f"abi.{cname}.all_registers")
        got = _fold_register_names(fa, ok)
        dup = sorted(k for k, n in got.items() if n > 1)
        ctx.check(set(got) == w and not dup, fa, fa.node, f"{cname}.all_registers() = the {len(w)} general registers, each once",
                  f"missing {sorted(w - set(got))}, unknown {sorted(set(got) - w)}, duplicated {dup}: a clobber of a missing register raises KeyError, an unknown one (t10, x31) is handed to the assembler as scratch",
                  key=f"{cname}::all-registers")


@rule("C07.11", ["C07", "C01"], "scope matching: the three _block_matches predicates are exactly the documented ones (test-suite-surviving mutants)", 6)
def c07_11(ctx: Ctx):
    from ..effects import predicate_formula

    repo = ctx.repo
    fb = repo.cls("scopes.AllBlocksScope").methods["_block_matches"]
    pf = predicate_formula(repo, fb)
    lb = linear(fb.node)
    if pf is None:
        raise AnalysisError("AllBlocksScope._block_matches: not a boolean cascade")
    want = lb.cond(ast.parse("isinstance(block, gtirb.CodeBlock) and (func is None or self.exclude_functions is None or not pattern_match(module, func, self.exclude_functions))", mode="eval").body, {})
    ctx.check(implies(pf, want) and implies(want, pf), fb, fb.node, "AllBlocksScope: code blocks, minus those of excluded functions (blocks outside any function and an absent filter always match)",
              f"predicate is `{f_show(pf)[:160]}`: blocks are skipped or patched that the scope does not describe", key="AllBlocksScope::_block_matches")
    ff = repo.cls("scopes.AllFunctionsScope").methods["_block_matches"]
    lf = linear(ff.node)
    fm = single_assign_value(ff.node, "function_matches")
    ctx.check(fm is not None and _equiv(lf, fm, "self.functions is None or pattern_match(module, func, self.functions)"), ff, fm or ff.node,
              "AllFunctionsScope: a function matches when there is no filter or the filter names it", f"function_matches = {src(fm) if fm else '?'}", key="AllFunctionsScope::function_matches")
    falses = [g for g in lf.stmts if isinstance(g.node, ast.Return) and isinstance(g.node.value, ast.Constant) and g.node.value.value is False]
    ok = len(falses) == 2
    if ok:
        w1 = lf.cond_at(falses[0], ast.parse("func is None", mode="eval").body)
        w2 = lf.cond_at(falses[1], ast.parse("func is not None and not function_matches", mode="eval").body)
        ok = implies(falses[0].guard, w1) and implies(w1, falses[0].guard) and implies(falses[1].guard, w2) and implies(w2, falses[1].guard)
    ctx.check(ok, ff, ff.node, "AllFunctionsScope: no match without a function, no match for a function the filter does not name", "the two refusals changed", key="AllFunctionsScope::refusals")
    cs = repo.cls("scopes.SingleBlockScope")
    bm, kt = cs.methods["_block_matches"], cs.methods["_known_targets"]
    r1 = [n for n in walk_no_nested(bm.node) if isinstance(n, ast.Return)]
    r2 = [n for n in walk_no_nested(kt.node) if isinstance(n, ast.Return)]
    ctx.check(len(r1) == 1 and r1[0].value is not None and src(r1[0].value) == canon("self.block == block"), bm, bm.node, "SingleBlockScope matches exactly its block", f"returns `{src(r1[0].value) if r1 and r1[0].value is not None else None}`",
              key="SingleBlockScope::_block_matches")
    ctx.check(len(r2) == 1 and r2[0].value is not None and src(r2[0].value) == "{self.block}", kt, kt.node, "SingleBlockScope's known target set is {its block}", f"returns `{src(r2[0].value) if r2 and r2[0].value is not None else None}`",
              key="SingleBlockScope::_known_targets")
    nd = [(c, m) for c in ("AllBlocksScope", "AllFunctionsScope", "SingleBlockScope") for m in [repo.cls(f"scopes.{c}").methods.get("_needs_disassembly")] if m is not None]
    ctx.check(len(nd) == 3, repo.mod("scopes"), None, "each scope says whether it needs disassembly", "a _needs_disassembly override disappeared", key="scopes::needs_disassembly-present")


@rule("C12.14", ["C12", "C08", "C04"], "CFI procedures follow block replacement at both ends; every symbolic operand form carries its variant attributes (test-suite-surviving mutants)", 6)
def c12_14(ctx: Ctx):
    repo = ctx.repo
    rb = repo.func("assembler.assembler.Assembler.Result.CFIProcedure._replace_block")
    lin = linear(rb.node)
    for end in ("start_offset", "end_offset"):
        gs = [g for g in lin.stmts if isinstance(g.node, ast.Assign) and src(g.node.targets[0]) == f"self.{end}"]
        ok = len(gs) == 1 and src(gs[0].node.value) == f"self.{end}._replace(element_id=new_block)"
        if ok:
            want = lin.cond_at(gs[0], ast.parse(f"self.{end} and self.{end}.element_id == old_block", mode="eval").body)
            ok = implies(gs[0].guard, want) and implies(want, gs[0].guard)
        ctx.check(ok, rb, gs[0].node if gs else rb.node, f"the procedure's {end} is re-pointed exactly when it names the replaced block",
                  f"{end} is {'not re-pointed' if not gs else 'guarded by ' + f_show(gs[0].guard)[:80]}: after an empty label block is folded away the procedure starts/ends on a block that is "
                  "not in the section (its .cfi_startproc/.cfi_endproc is keyed outside the module) or an unrelated procedure is moved",
                  key=f"CFIProcedure._replace_block::{end}")
    rn = repo.func("assembler.assembler.Assembler.Result.CFIProcedure._referenced_nodes")
    t = " ".join(src(rn.node).split())
    ctx.check("yield self.start_offset.element_id" in t and "yield self.end_offset.element_id" in t and "self.instructions.node_keys()" in t, rn, rn.node,
              "a procedure refers to the blocks of its start, its end and all its instructions", "one of the three sources of referenced blocks is gone: a block that only carries the start/end of a procedure counts as CFI-free and is dropped",
              key="CFIProcedure._referenced_nodes")
    mo = repo.func("assembler.assembler._Streamer._mcexpr_to_symbolic_operand")
    lm = linear(mo.node)
    rets = [g for g in lm.stmts if isinstance(g.node, ast.Return) and isinstance(g.node.value, ast.Call) and src(g.node.value.func) in ("gtirb.SymAddrConst",)]
    if len(rets) < 2:
        raise AnalysisError("_mcexpr_to_symbolic_operand: SymAddrConst results not found")
    for ordinal, g in enumerate(rets):
        call = g.node.value
        attrs = call.args[2] if len(call.args) > 2 else next((k.value for k in call.keywords if k.arg == "attributes"), None)
        # between the nearest preceding _resolve_symbol_ref under the same guard and this return, the variant attributes must be merged in
        merged = [x for x in lm.stmts if x.index < g.index and implies(g.guard, x.guard) and isinstance(x.node, ast.AugAssign) and src(x.node.target) == "attributes" and "_get_symbol_ref_attrs" in src(x.node.value)]
        inline = attrs is not None and "_get_symbol_ref_attrs" in src(attrs)
        ctx.check(attrs is not None and (merged or inline), mo, g.node, f"`{src(call)[:50]}`: the symbol reference's variant/PLT attributes are merged into the expression",
                  "this operand form returns its expression without consulting _get_symbol_ref_attrs: `sym@GOTPCREL+8` (symbol plus constant) loses its attributes and denotes sym+8 itself",
                  key=f"_mcexpr_to_symbolic_operand::attrs::#{ordinal}")
    rt = repo.func("assembler.assembler._Streamer._resolve_instruction_target")
    calls = [c for c in calls_in(rt.node) if src(c.func) == "self._fixup_to_symbolic_operand"]
    ok = len(calls) == 1 and len(calls[0].args) == 4 and src(calls[0].args[0]) == "fixups[0]" and src(calls[0].args[2]) == "True"
    ctx.check(ok, rt, calls[0] if calls else rt.node, "the target of a direct transfer is its (only) fixup, converted as a branch operand",
              f"called as `{src(calls[0])[:80] if calls else '?'}`: the edge target is computed from another fixup or without the branch flag (no PLT inference for the target symbol)",
              key="_resolve_instruction_target::fixup0-as-branch")


@rule("C19.7", ["C19"], "delete_symbol is unforced unless the caller says otherwise", 1)
def c19_7(ctx: Ctx):
    fi = ctx.repo.func("rewriting.RewritingContext.delete_symbol")
    kw = {a.arg: d for a, d in zip(fi.node.args.kwonlyargs, fi.node.args.kw_defaults)}
    pos = dict(zip([a.arg for a in fi.node.args.args][-len(fi.node.args.defaults):], fi.node.args.defaults)) if fi.node.args.defaults else {}
    d = kw.get("force", pos.get("force"))
    ctx.check(isinstance(d, ast.Constant) and d.value is False, fi, fi.node, "`force` defaults to False",
              f"`force` defaults to {src(d) if d is not None else 'nothing'}: a plain delete_symbol(sym) silently drops the expressions that still use the symbol instead of failing with SymbolUsesRemainingError",
              key="delete_symbol::force-default")


@rule("C08.10", ["C08", "C09"], "the CFI procedure tracker scans every block and every directive (no early exit)", 3)
def c08_10(ctx: Ctx):
    fi = ctx.repo.func("rewriting._CFIProcedureTracker.__init__")
    loops = [n for n in walk_no_nested(fi.node) if isinstance(n, ast.For)]
    if len(loops) < 3:
        raise AnalysisError("_CFIProcedureTracker.__init__: scan loops not found")
    for lp in loops:
        own_breaks = [x for st in lp.body for x in walk_no_nested(st) if isinstance(x, (ast.Break, ast.Return))
                      and not any(isinstance(inner, ast.For) and inner is not lp and any(x is y for y in ast.walk(inner)) for st2 in lp.body for inner in ast.walk(st2))]
        ctx.check(not own_breaks, fi, own_breaks[0] if own_breaks else lp, f"`for … in {src(lp.iter)[:40]}` runs to the end",
                  f"`{src(own_breaks[0]) if own_breaks else ''}` leaves the scan at the first data block / block without directives: procedures that start after it are unknown to the tracker, "
                  "so CFI directives of patches inserted there are thrown away as 'outside any procedure'",
                  key=f"_CFIProcedureTracker::scan::{src(lp.iter)[:30]}")


@rule("C12.15", ["C12", "C01", "C03"], "a patch result always ends in a code block without outgoing edges (so that what follows can be stitched on)", 1)
def c12_15(ctx: Ctx):
    fi = ctx.repo.func("rewriting.RewritingContext._invoke_patch")
    v = single_assign_value(fi.node, "needs_additional_block")
    lin = linear(fi.node)
    ok = v is not None and _equiv(lin, v, "not isinstance(last_block, gtirb.CodeBlock) or any(result.cfg.out_edges(last_block))")
    ctx.check(ok, fi, v or fi.node, "an empty code block is appended when the last block is data or has outgoing edges",
              f"needs_additional_block = `{src(v)[:100] if v else '?'}`: a patch ending in data or in a jump/call/return is handed to insert() with a last block that cannot take the fallthrough "
              "to the rest of the original block (insert() asserts, or the terminator gains a fallthrough)",
              key="_invoke_patch::needs-additional-block")


# ----------------------------------------------------------------------------
# second bug-hunt round (DESIGN 7, F71-...)
# ----------------------------------------------------------------------------


@rule("C05.12", ["C05", "C02", "C01"], "a block that starts inside a removed range ends up at the edit point, never in front of it", 1)
def c05_12(ctx: Ctx):
    fi = ctx.repo.func("_modify.edit.edit_byte_interval")
    loops = [n for n in walk_no_nested(fi.node) if isinstance(n, ast.For) and src(n.iter) == "bi.blocks" and isinstance(n.target, ast.Name)]
    if len(loops) != 1:
        raise AnalysisError("edit_byte_interval: block loop not found")
    b = loops[0].target.id
    upd = [n for n in ast.walk(loops[0]) if isinstance(n, (ast.Assign, ast.AugAssign)) and src(n.targets[0] if isinstance(n, ast.Assign) else n.target) == f"{b}.offset"]
    if not upd:
        raise AnalysisError("edit_byte_interval: block offset update not found")
    t = " ".join(src(u) for u in upd)
    tests = " ".join(src(i.test) for i in ast.walk(loops[0]) if isinstance(i, ast.If))
    ok = ("max(" in t and "offset" in t) or "offset + length" in tests
    ctx.check(ok, fi, upd[0], "the shift of a block is clamped at the edit point (or only blocks behind the removed range are shifted by the full delta)",
              f"`{t[:80]}` under `{tests[:80]}`: every block starting at or after `offset` moves by the whole size delta; a block that starts *inside* the removed range (the zero-sized block "
              "apply() itself creates for an address-valued symbol `mid = d+3`) is moved in front of the edit point - `delete_at(d, 2, 4)` puts it at offset -1 and the IR cannot be saved",
              key="edit_byte_interval::clamp-blocks-in-removed-range")


@rule("C17.10", ["C17"], "x86 integer arguments are formatted as integers (bool is an int); ARM64 refuses what it does not implement", 2)
def c17_10(ctx: Ctx):
    repo = ctx.repo
    fx = repo.func("patches.calls._CallPatchX86.get_asm")
    lin = linear(fx.node)
    ints = [g for g in lin.stmts if isinstance(g.node, ast.Assign) and src(g.node.targets[0]) == "arg_str" and lin.under(g, "isinstance(arg_value, int)")]
    if len(ints) != 1:
        raise AnalysisError("_CallPatchX86.get_asm: integer argument formatting not found")
    t = src(ints[0].node.value)
    ctx.check("int(" in t or ":d}" in t or "%d" in t, fx, ints[0].node, "an int argument is rendered through int()/`:d`",
              f"`arg_str = {t}`: `True`/`False` pass CallPatch's isinstance(arg, int) check and are pasted as the identifiers `True`/`False` - `mov RDI, True` refers to a symbol named True "
              "(UndefSymbolError, or a load from it) instead of passing 1; ARM64 emits `mov x0, #1` for the same call",
              key="_CallPatchX86.get_asm::int-format")
    fa = repo.func("patches.calls._CallPatchARM64.__init__")
    la = linear(fa.node)
    raises = [g for g in la.stmts if isinstance(g.node, ast.Raise) and "ValueError" in src(g.node)]
    ga = repo.func("patches.calls._CallPatchARM64.get_asm")
    honoured = "caller_cleanup" in src(ga.node)
    refused = any("caller_cleanup" in a for g in raises for a in _atoms(g.guard))
    ctx.check(honoured or refused, fa, fa.node, "ARM64: caller_cleanup=False is honoured by get_asm or refused like shadow_space/stack_alignment",
              "the constructor rejects shadow_space and a stack alignment other than 16 but never looks at caller_cleanup, and get_asm always emits `add sp, sp, #n` after the call: with a "
              "callee-cleanup convention sp ends 8/16 bytes above where it started and the epilogue restores registers from the wrong slots",
              key="_CallPatchARM64::caller_cleanup")


@rule("C16.13", ["C16"], "a read-register that is not in the scratch pool is simply not a scratch candidate (no accidental exception)", 1)
def c16_13(ctx: Ctx):
    fi = ctx.repo.func("abi.ABI._allocate_patch_registers")
    lin = linear(fi.node)
    rm = [g for g, c in lin.all_calls() if src(c) == "available_scratch_registers.remove(reg)"]
    if len(rm) != 2:
        raise AnalysisError("_allocate_patch_registers: the two removals not found")
    for g in rm:
        which = "reads_registers" if "reads_registers" in src(g.loops[-1].iter) else "clobbers_registers"
        ctx.check(la_under := lin.under(g, "reg in available_scratch_registers"), fi, g.node, f"{which}: removal from the pool only when the register is in it",
                  f"`available_scratch_registers.remove(reg)` for {which} is unguarded: Constraints(reads_registers={{'x30'}}) on ARM64 (or a register that is both read and clobbered, on any ABI) "
                  "raises `ValueError: list.remove(x): x not in list` and no prologue is produced",
                  key=f"_allocate_patch_registers::guarded-remove::{which}")
