"""C19 - delete_symbol removes every trace of the symbol, and only that."""

from __future__ import annotations

import ast
from typing import Dict, List, Set

from .. import aux
from ..astx import calls_in, canon, f_show, linear, single_assign_value, src, walk_no_nested
from ..core import AnalysisError, Ctx, rule
from ..region import Unknown, minieval
from ..resolve import callgraph

DS = "_modify.delete_symbols."


@rule("C19.1", ["C19", "C05", "C06"], "every aux table that can mention a symbol has a deletion helper (key and value side)", 8)
def c19_1(ctx: Ctx):
    repo = ctx.repo
    defs = aux.table_defs(repo)
    sym_tables = {v: t for v, t in defs.items() if "gtirb.Symbol" in t.py_type}
    if len(sym_tables) < 8:
        raise AnalysisError(f"only {len(sym_tables)} Symbol-typed tables found")
    root = repo.func(DS + "_delete_auxdata_entries")
    cg = callgraph(repo)
    cone = cg.cone([root.qual])
    handled: Dict[str, List] = {}
    for q in cone:
        f = repo.funcs[q]
        for u in aux.table_uses(repo, f):
            for t in u.tables:
                handled.setdefault(t, []).append(f)
    lin = linear(root.node)
    for var, t in sorted(sym_tables.items()):
        fs = handled.get(var, [])
        ctx.check(bool(fs), root, root.node, f"{t.name}: a helper reachable from _delete_auxdata_entries handles it",
                  f"{t.name} ({t.py_type}) can mention a symbol but no deletion helper touches it: the deleted symbol stays referenced by the table", key=f"C19.1::{var}")
    # helpers are called unconditionally with (module, symbols)
    for g, c in lin.all_calls():
        if isinstance(c.func, ast.Name) and c.func.id.startswith(("_delete_", "_update_")):
            ctx.check(g.top and [src(a) for a in c.args] == ["module", "symbols"], root, c, f"{c.func.id}(module, symbols) unconditionally", "helper call became conditional or its arguments changed", key=f"C19.1::call::{c.func.id}")
    # symbolForwarding: key and value
    sf = repo.func(DS + "_delete_symbol_forwarding")
    t = " ".join(src(sf.node).split())
    ctx.check("if key in symbols or value in symbols: to_remove.add(key)" in t, sf, sf.node, "symbolForwarding entries are dropped when key *or* target is deleted", "only one side of symbolForwarding is examined")
    ctx.check("for key in to_remove: del symbol_forwarding_auxdata[key]" in t, sf, sf.node, "collected keys are deleted", "deletion changed")
    # simple keyed tables: pop for every symbol
    for fn, var in ((DS + "_delete_elf_symbol_info", "elf_symbol_info_auxdata"), (DS + "_delete_elf_symbol_tab_idx_info", "elf_symbol_tab_idx_auxdata")):
        f = repo.func(fn)
        ctx.check(f"for symbol in symbols: {var}.pop(symbol, None)" in " ".join(src(f.node).split()), f, f.node, f"{fn.split('.')[-1]}: pop every deleted symbol", "changed")
    for fn, tbl in ((DS + "_delete_pe_imported_symbols", "pe_imported_symbols"), (DS + "_delete_pe_exported_symbols", "pe_exported_symbols")):
        f = repo.func(fn)
        t = " ".join(src(f.node).split())
        ctx.check(f"_auxdata.{tbl}.set(module, [" in t and "not in symbols]" in t, f, f.node, f"{fn.split('.')[-1]}: list rebuilt without the deleted symbols", "changed")
    fnm = repo.func(DS + "_delete_function_names")
    t = " ".join(src(fnm.node).split())
    ctx.check("if name in symbols: remove_uuids.add(uuid)" in t and "for uuid in remove_uuids: del names_auxdata[uuid]" in t, fnm, fnm.node, "functionNames entries naming a deleted symbol are removed", "changed")


@rule("C19.2", ["C19", "C08"], "CFI directives naming a deleted symbol get the null UUID (and DW_EH_PE_omit for personality/lsda)", 4)
def c19_2(ctx: Ctx):
    fi = ctx.repo.func(DS + "_update_cfi_directive_symbols")
    lin = linear(fi.node)
    special: Set[str] = set()
    for n in ast.walk(fi.node):
        if isinstance(n, ast.Compare) and src(n.left) == "directive" and isinstance(n.ops[0], (ast.In, ast.Eq)):
            c = n.comparators[0]
            if isinstance(c, (ast.Tuple, ast.List, ast.Set)):
                special |= {e.value for e in c.elts if isinstance(e, ast.Constant)}
            elif isinstance(c, ast.Constant):
                special.add(c.value)
    ctx.check(special == {".cfi_personality", ".cfi_lsda"}, fi, fi.node, "the pointer-carrying directives are .cfi_personality and .cfi_lsda",
              f"special-cased directives: {sorted(special)}: the other one keeps its pointer encoding although its pointer is gone")
    st = [g for g in lin.stmts if isinstance(g.node, ast.Assign) and src(g.node.targets[0]) == "directives[i]"]
    got = {}
    for g in st:
        v = src(g.node.value).replace(" ", "")
        if lin.under(g, "directive in ('.cfi_personality', '.cfi_lsda')") or "omit" in v:
            got["special"] = v
        else:
            got["plain"] = v
    ctx.check(got.get("special") == "(directive,[PointerEncodings.omit.value],_auxdata.NULL_UUID)", fi, fi.node, "personality/lsda: encoding becomes omit, symbol the null UUID", f"rewrite is {got.get('special')}")
    ctx.check(got.get("plain") == "(directive,args,_auxdata.NULL_UUID)", fi, fi.node, "other directives: same operands, null UUID", f"rewrite is {got.get('plain')}")
    ctx.check(all(lin.under(g, "symbol in symbols") for g in st) and len(st) == 2, fi, fi.node, "only directives that name a deleted symbol are touched", "guard changed")


@rule("C19.3", ["C19", "C11", "C04"], "remaining uses: error unless forced; exactly the expressions that mention a deleted symbol are dropped", 6)
def c19_3(ctx: Ctx):
    repo = ctx.repo
    fi = repo.func(DS + "_delete_symbolic_expressions")
    lin = linear(fi.node)
    for n in walk_no_nested(fi.node):
        if isinstance(n, (ast.Break, ast.Continue, ast.Return)):
            ctx.fail(fi, n, f"`{type(n).__name__.lower()}` in the expression scan",
                     "the scan stops early: later symbols of the same expression (or later expressions) are not examined, so a non-forced symbol with remaining uses is deleted silently")
    r = [g for g in lin.stmts if isinstance(g.node, ast.Raise)]
    add = [(g, c) for g, c in lin.all_calls() if src(c) == "to_drop.add(offset)"]
    dele = [g for g in lin.stmts if isinstance(g.node, ast.Delete)]
    ok = len(r) == 1 and "SymbolUsesRemainingError(sym)" in src(r[0].node) and lin.under(r[0], "opts") and lin.under(r[0], "not opts.force")
    ctx.check(ok, fi, r[0].node if r else fi.node, "a use of a symbol deleted without force raises SymbolUsesRemainingError", "refusal changed")
    ok = len(add) == 1 and lin.under(add[0][0], "opts") and lin.under(add[0][0], "opts.force")
    ctx.check(ok, fi, add[0][1] if add else fi.node, "a use of a force-deleted symbol schedules that offset for removal", "scheduling changed")
    ok = len(dele) == 1 and src(dele[0].node.targets[0]) == "byte_interval.symbolic_expressions[offset]" and r and dele[0].index > r[0].index and len(dele[0].loops) == 2 and src(dele[0].loops[1].iter) == "to_drop"
    ctx.check(ok, fi, dele[0].node if dele else fi.node, "expressions are deleted only after the whole interval was scanned without error", "deletion happens before the scan finished (partial deletion before the raise)")
    ov = single_assign_value(fi.node, "opts")
    ctx.check(ov is not None and src(ov) == "symbols.get(sym)", fi, ov or fi.node, "options are looked up per symbol of the expression", "lookup changed")
    loops = [src(n.iter) for n in walk_no_nested(fi.node) if isinstance(n, ast.For)]
    ctx.check(loops[:3] == ["module.byte_intervals", "byte_interval.symbolic_expressions.items()", "expr.symbols"], fi, fi.node, "every symbol of every expression of every interval is examined", f"loops: {loops}")
    td = [g for g in lin.stmts if isinstance(g.node, ast.Assign) and src(g.node.targets[0]) == "to_drop"]
    ctx.check(len(td) == 1 and len(td[0].loops) == 1, fi, td[0].node if td else fi.node, "the drop set is per interval", "to_drop scope changed")
    ds = repo.func("rewriting.RewritingContext.delete_symbol")
    t = " ".join(src(ds.node).split())
    ctx.check("opts.force = force and opts.force" in t and "self._symbol_deletions.setdefault(symbol, SymbolDeletionOptions(force))" in t, ds, ds.node,
              "a symbol requested both forced and unforced is treated as unforced", "force merging changed")
    ctx.check(" ".join(canon("if symbol.module is not self._module:\n    raise ValueError").split())[:-len("raise ValueError")].strip() in t and "raise ValueError" in t, ds, ds.node, "foreign symbols are refused", "changed")


@rule("C19.4", ["C19"], "version definitions/requirements are dropped exactly when unused; the base definition always stays", 7)
def c19_4(ctx: Ctx):
    fi = ctx.repo.func(DS + "_delete_elf_symbol_versions")
    lin = linear(fi.node)
    base = ctx.repo.mod("_modify.delete_symbols").toplevel_assign("_VER_FLG_BASE")
    bval = None
    if base is not None:
        try:
            bval = minieval(base, {})
        except Unknown:
            pass
    ctx.check(bval == 1, fi, base or fi.node, "VER_FLG_BASE == 0x1", f"_VER_FLG_BASE = {src(base) if base is not None else 'missing'}")
    dd = [g for g in lin.stmts if isinstance(g.node, ast.Delete) and src(g.node.targets[0]) == "defs[id]"]
    if len(dd) != 1:
        raise AnalysisError("_delete_elf_symbol_versions: `del defs[id]` not found")
    g = dd[0]
    # which flags values lead to deletion?
    from ..astx import f_atoms, f_eval

    bad = []
    for flags in (0, 1, 2, 3):
        vals = {}
        for a in f_atoms(g.guard):
            if a[0].startswith("<"):
                vals[a] = True
                continue
            try:
                vals[a] = bool(minieval(ast.parse(a[0], mode="eval").body, {"flags": flags, "_VER_FLG_BASE": bval if bval is not None else 1, "symbol_versions_auxdata": [1]}))
            except Unknown as exc:
                raise AnalysisError(f"version-definition guard not interpretable: {exc}")
        got = f_eval(g.guard, vals)
        # VER_FLG_BASE is a bit of a mask (VER_FLG_BASE=1, VER_FLG_WEAK=2, ...): base|weak = 3 is still the base definition
        if got != ((flags & 1) == 0):
            bad.append((flags, got))
    ctx.check(not bad, fi, g.node, "an unused definition is deleted iff its flags lack the VER_FLG_BASE bit",
              f"(flags, deleted) = {bad}: unused definitions without the base bit (e.g. weak = 2) must be dropped, every definition with the base bit (1, 3 = BASE|WEAK) must stay",
              key="C19.4::base-bit")
    ctx.check(len(g.loops) == 1 and src(g.loops[0].iter) == "ids_to_remove", fi, g.node, "only ids without remaining users are candidates", "loop changed")
    keep = single_assign_value(fi.node, "ids_to_keep")
    ctx.check(keep is not None and src(keep).replace(" ", "") == "set((idfor(id,_)inentries.values()))".replace(" ", "") or (keep is not None and "entries.values()" in src(keep)), fi, keep or fi.node,
              "ids still used are those of the remaining symbol entries", f"ids_to_keep = {src(keep) if keep else '?'}")
    pops = [(gg, c) for gg, c in lin.all_calls() if src(c) == "entries.pop(symbol, None)"]
    kg = lin.of(keep) if keep is not None else None
    ctx.check(len(pops) == 1 and kg is not None and pops[0][0].index < kg.index, fi, fi.node, "deleted symbols leave the entries before the used ids are computed", "order changed")
    rm = [g2 for g2 in lin.stmts if isinstance(g2.node, ast.Assign) and src(g2.node.targets[0]) == "ids_to_remove"]
    ctx.check(len(rm) == 2 and all("not in ids_to_keep" in src(g2.node.value) for g2 in rm), fi, fi.node, "ids to remove are exactly those not kept (defs and each library's versions)", "changed")
    dv = [g2 for g2 in lin.stmts if isinstance(g2.node, ast.Delete) and src(g2.node.targets[0]) == "versions[id]"]
    la = [(g2, c) for g2, c in lin.all_calls() if src(c) == "libs_to_remove.append(lib)"]
    ctx.check(len(dv) == 1 and len(la) == 1 and lin.under(la[0][0], "not versions"), fi, fi.node, "a library is dropped only when its last needed version went", "library GC changed")
    dr = [g2 for g2 in lin.stmts if isinstance(g2.node, ast.Delete) and src(g2.node.targets[0]) == "reqs[lib]"]
    ctx.check(len(dr) == 1 and src(dr[0].loops[0].iter) == "libs_to_remove", fi, fi.node, "emptied libraries are removed after the scan", "changed")


@rule("C19.5", ["C19"], "tables first, then expressions (which may refuse), then the symbols leave the module", 3)
def c19_5(ctx: Ctx):
    fi = ctx.repo.func(DS + "delete_symbols")
    lin = linear(fi.node)
    a = [(g, c) for g, c in lin.all_calls() if src(c.func) == "_delete_auxdata_entries"]
    e = [(g, c) for g, c in lin.all_calls() if src(c.func) == "_delete_symbolic_expressions"]
    d = [g for g in lin.stmts if isinstance(g.node, ast.Assign) and src(g.node.targets[0]) == "symbol.module" and src(g.node.value) == "None"]
    ok = len(a) == 1 and len(e) == 1 and len(d) == 1 and a[0][0].top and e[0][0].top
    ctx.check(ok, fi, fi.node, "three phases present", "phases changed")
    if ok:
        ctx.check(e[0][0].index < d[0].index, fi, d[0].node, "symbols are detached only after the use check passed", "symbols leave the module before remaining uses were checked")
        ctx.check(len(d[0].loops) == 1 and src(d[0].loops[0].iter) == "symbols", fi, d[0].node, "every requested symbol is detached", "loop changed")
        ctx.check(a[0][0].index < d[0].index, fi, a[0][1], "the aux-data tables are cleaned while the symbols are still part of the module",
                  "`_delete_auxdata_entries` runs after `symbol.module = None`: gtirb decodes an aux-data table on first access and resolves the UUIDs in it through the IR at that moment, so on a "
                  "loaded IR whose symbol tables were not touched before, the detached symbols decode as bare UUIDs, none of the `in symbols` / `pop(sym)` tests matches and every entry about a "
                  "deleted symbol (elfSymbolInfo, versions, forwarding, functionNames, PE lists) survives into the saved file", key="delete_symbols::tables-before-detach")
        par = fi.node.args.args[1].arg if len(fi.node.args.args) > 1 else "symbols"
        whole = all(len(c.args) >= 2 and src(c.args[1]) == par for _, c in a + e)
        ctx.check(whole, fi, e[0][1], "both clean-up phases see the whole request",
                  "a phase is called with a subset of the requested symbols: `_delete_symbolic_expressions` decides 'remaining use' per expression against the mapping it is given, so an expression "
                  "naming a forced and a non-forced symbol (`a - b` in a jump table) is dropped by the forced pass and the non-forced symbol is then deleted without SymbolUsesRemainingError",
                  key="delete_symbols::whole-request")
