"""C07 - each registered insertion lands exactly once, exactly where asked."""

from __future__ import annotations

import ast
from typing import Dict, List, Optional, Set

from ..astx import (
    TRUE,
    calls_in,
    exclusive,
    f_show,
    implies,
    linear,
    single_assign_value,
    src,
    walk_no_nested,
)
from ..core import AnalysisError, Ctx, rule


@rule("C07.1", ["C07", "C01"], "a modification is filed in exactly one store and both stores are consulted for every block", 5)
def c07_1(ctx: Ctx):
    repo = ctx.repo
    fi = repo.func("rewriting._ModificationStore.add")
    lin = linear(fi.node)
    blk = [(g, c) for g, c in lin.all_calls() if src(c.func) == "self._block_changes[target].append"]
    scp = [(g, c) for g, c in lin.all_calls() if src(c.func) == "self._scope_changes.append"]
    ok = len(blk) == 1 and len(scp) == 1
    ctx.check(ok, fi, fi.node, "one append per store", f"{len(blk)} block-store and {len(scp)} scope-store appends")
    if ok:
        ctx.check(exclusive(blk[0][0].guard, scp[0][0].guard), fi, fi.node, "the two stores are filled on exclusive paths",
                  "a modification can be filed in both stores: it would be applied twice to its block")
        ctx.check(lin.under(blk[0][0], "known_targets is not None") and lin.under(scp[0][0], "known_targets is None"), fi, fi.node,
                  "known targets -> block store, otherwise scope store", "store selection changed")
        ctx.check(len(blk[0][0].loops) == 1 and src(blk[0][0].loops[0].iter) == "known_targets", fi, blk[0][1], "filed under every known target", "loop changed")
        ctx.check(src(blk[0][1].args[0]) == "modification" and src(scp[0][1].args[0]) == "modification", fi, fi.node, "the modification itself is stored", "stored value changed")
    fm = repo.func("rewriting._ModificationStore.modifications_for_block")
    lm = linear(fm.node)
    ext = [(g, c) for g, c in lm.all_calls() if src(c.func) == "results.extend"]
    app = [(g, c) for g, c in lm.all_calls() if src(c.func) == "results.append"]
    ok = len(ext) == 1 and src(ext[0][1].args[0]) == "self._block_changes[block]" and lm.under(ext[0][0], "block in self._block_changes")
    ctx.check(ok, fm, ext[0][1] if ext else fm.node, "block-specific modifications of this block are returned", "block store lookup changed")
    ok = len(app) == 1 and lm.under(app[0][0], "scope_change.scope._block_matches(module, func, block)") and len(app[0][0].loops) == 1 and src(app[0][0].loops[0].iter) == "self._scope_changes"
    ctx.check(ok, fm, app[0][1] if app else fm.node, "every scope modification whose scope matches (module, func, block) is returned", "scope store filtering changed")
    if app:
        from ..astx import f_atoms

        extra = {a[0] for a in f_atoms(app[0][0].guard) if not a[0].startswith("<")} - {"scope_change.scope._block_matches(module, func, block)"}
        ctx.check(not extra, fm, app[0][1], "no other filter on scope modifications", f"additional filter {sorted(extra)}")
    # apply(): one visit per block
    ap = repo.func("rewriting.RewritingContext.apply")
    la = linear(ap.node)
    mf = [(g, c) for g, c in la.all_calls() if src(c.func) == "self._modifications.modifications_for_block"]
    am = [(g, c) for g, c in la.all_calls() if src(c.func) == "self._apply_modifications"]
    ok = len(mf) == 1 and len(am) == 1 and [src(a) for a in mf[0][1].args] == ["self._module", "block", "func"] and \
        [src(a) for a in am[0][1].args[:4]] == ["modify_cache", "modifications", "func", "block"] and \
        len(am[0][0].loops) == 1 and "sorted_blocks" in src(am[0][0].loops[0].iter) and am[0][0].loops == mf[0][0].loops
    ctx.check(ok, ap, am[0][1] if am else ap.node, "apply(): for each block once: collect its modifications and apply them",
              "the per-block application loop changed")
    sb = single_assign_value(ap.node, "sorted_blocks")
    ctx.check(sb is not None and "self._module.byte_blocks" in src(sb) and src(sb).startswith("sorted("), ap, sb or ap.node,
              "all byte blocks of the module, sorted", f"sorted_blocks = {src(sb) if sb else '?'}")


@rule("C07.2", ["C07"], "_needs_disassembly is true exactly for the positions whose offset computation reads the disassembly", 4)
def c07_2(ctx: Ctx):
    repo = ctx.repo
    po = repo.func("scopes._potential_offsets_in_block")
    arms: Dict[str, List[ast.stmt]] = {}
    st: Optional[ast.stmt] = po.node.body[0] if po.node.body else None
    body = [s for s in po.node.body if not (isinstance(s, ast.Expr) and isinstance(s.value, ast.Constant))]
    st = body[0] if body else None
    final_else: List[ast.stmt] = []
    while isinstance(st, ast.If):
        t = st.test
        if isinstance(t, ast.Compare) and src(t.left) == "block_position" and isinstance(t.ops[0], ast.Eq):
            arms[src(t.comparators[0]).split(".")[-1]] = st.body
        final_else = st.orelse
        st = st.orelse[0] if len(st.orelse) == 1 and isinstance(st.orelse[0], ast.If) else None
    enum = repo.cls("scopes.BlockPosition")
    members = [s.targets[0].id for s in enum.node.body if isinstance(s, ast.Assign) and isinstance(s.targets[0], ast.Name)]
    ctx.check(set(arms) == set(members), po, po.node, f"one arm per BlockPosition member {members}", f"arms {sorted(arms)} vs members {members}")
    uses = {k for k, b in arms.items() if any(isinstance(n, ast.Name) and n.id == "disassembly" for s in b for n in ast.walk(s))}
    ctx.check(bool(final_else) and "assert_never(block_position)" in src(final_else[0]), po, po.node,
              "the final arm is assert_never(block_position) (exhaustiveness witness for the type checker)", "assert_never arm removed")
    for cname, attr in (("AllBlocksScope", "position"), ("SingleBlockScope", "position"), ("AllFunctionsScope", "block_position")):
        cls = repo.cls(f"scopes.{cname}")
        nd = cls.methods.get("_needs_disassembly")
        pofs = cls.methods.get("_potential_offsets")
        if nd is None or pofs is None:
            ctx.fail(cls.methods["__init__"], None, f"{cname}._needs_disassembly/_potential_offsets", "method missing")
            continue
        rets = [n for n in walk_no_nested(nd.node) if isinstance(n, ast.Return)]
        got: Set[str] = set()
        used_attr = None
        if len(rets) == 1 and isinstance(rets[0].value, ast.Compare) and isinstance(rets[0].value.ops[0], ast.In):
            used_attr = src(rets[0].value.left)
            coll = rets[0].value.comparators[0]
            if isinstance(coll, (ast.List, ast.Tuple, ast.Set)):
                got = {src(e).split(".")[-1] for e in coll.elts}
        ctx.check(got == uses and used_attr == f"self.{attr}", nd, nd.node,
                  f"{cname}._needs_disassembly == (self.{attr} in {sorted(uses)})",
                  f"_needs_disassembly tests `{used_attr}` against {sorted(got)} but the offset computation reads the disassembly for {sorted(uses)}: "
                  "the instructions would be None (assertion) or decoded needlessly")
        call = [c for c in calls_in(pofs.node) if src(c.func) == "_potential_offsets_in_block"]
        ctx.check(len(call) == 1 and [src(a) for a in call[0].args] == [f"self.{attr}", "block", "disassembly"], pofs, pofs.node,
                  f"{cname}._potential_offsets delegates with self.{attr}", "delegation arguments changed")
    sl = repo.cls("scopes._SpecificLocationScope")
    nd = sl.methods["_needs_disassembly"]
    ctx.check("return False" in src(nd.node), nd, nd.node, "_SpecificLocationScope never needs disassembly", "changed")
    pofs = sl.methods["_potential_offsets"]
    ys = [n for n in walk_no_nested(pofs.node) if isinstance(n, ast.Yield)]
    ctx.check(len(ys) == 1 and src(ys[0].value) == "self.offset", pofs, pofs.node, "_SpecificLocationScope yields exactly its stored offset", "changed")
    rl = sl.methods["_replacement_length"]
    ctx.check("return self.replacement_length" in src(rl.node), rl, rl.node, "_replacement_length returns the stored length", "changed")
    # resolve_offsets computes instructions iff needed
    ro = repo.func("rewriting._ModificationStore.resolve_offsets")
    lr = linear(ro.node)
    ins = [g for g in lr.stmts if isinstance(g.node, ast.Assign) and src(g.node.targets[0]) == "instructions" and "get_instructions" in src(g.node.value)]
    ok = len(ins) == 1 and lr.under(ins[0], "isinstance(block, gtirb.CodeBlock)") and "_needs_disassembly()" in f_show(ins[0].guard)
    ctx.check(ok, ro, ins[0].node if ins else ro.node, "instructions are decoded when any modification needs them", "decode condition changed")


@rule("C07.3", ["C07", "C01"], "ENTRY -> 0, EXIT -> before the terminator, ANYWHERE -> boundaries not after the terminator", 6)
def c07_3(ctx: Ctx):
    repo = ctx.repo
    po = repo.func("scopes._potential_offsets_in_block")
    lin = linear(po.node)
    ys = [g for g in lin.stmts if isinstance(g.node, ast.Expr) and isinstance(g.node.value, ast.Yield)]

    def arm(name):
        return [g for g in ys if lin.under(g, f"block_position == BlockPosition.{name}")]

    e = arm("ENTRY")
    ctx.check(len(e) == 1 and src(e[0].node.value.value) == "0", po, po.node, "ENTRY yields offset 0", f"ENTRY yields {[src(g.node.value.value) for g in e]}")
    x = arm("EXIT")
    ok = len(x) == 1 and src(x[0].node.value.value).replace(" ", "") == "sum((inst.sizeforinstin_nonterminator_instructions(block,disassembly)))".replace(" ", "")
    ctx.check(ok, po, x[0].node if x else po.node, "EXIT yields the total size of the non-terminator instructions",
              f"EXIT yields `{src(x[0].node.value.value) if x else '?'}`")
    asserts = [a for i, a in lin.asserts]
    has_partial = any("_is_partial_disassembly(block, disassembly)" in f_show(a) for a in asserts)
    ctx.check(has_partial, po, po.node, "EXIT asserts complete disassembly", "partial-disassembly assertion removed (offset would be short)")
    a = arm("ANYWHERE")
    ok = len(a) == 2 and all(src(g.node.value.value) == "offset" for g in a)
    if ok:
        inloop = [g for g in a if g.loops]
        after = [g for g in a if not g.loops]
        ok = len(inloop) == 1 and len(after) == 1 and "_nonterminator_instructions(block, disassembly)" in src(inloop[0].loops[0].iter)
        incr = [g for g in lin.stmts if isinstance(g.node, ast.AugAssign) and src(g.node.target) == "offset" and src(g.node.value) == "inst.size" and g.loops]
        ok = ok and len(incr) == 1 and inloop[0].index < incr[0].index
    ctx.check(ok, po, po.node, "ANYWHERE yields each boundary before a non-terminator instruction and the one after the last of them", "ANYWHERE enumeration changed")
    nt = repo.func("utils._nonterminator_instructions")
    ln = linear(nt.node)
    yf = [g for g in ln.stmts if isinstance(g.node, ast.Expr) and isinstance(g.node.value, ast.YieldFrom)]
    cond = "all((_is_fallthrough_edge(edge) for edge in block.outgoing_edges))"
    full = [g for g in yf if src(g.node.value.value) == "disassembly"]
    cut = [g for g in yf if src(g.node.value.value) == "disassembly[:-1]"]
    ok = len(full) == 1 and len(cut) == 1 and ln.under(full[0], cond) and ln.under(cut[0], "not " + cond)
    ctx.check(ok, nt, nt.node, "the last instruction is the terminator iff the block has a non-fallthrough out-edge", "terminator detection changed")
    ro = repo.func("rewriting._ModificationStore.resolve_offsets")
    nx = [c for c in calls_in(ro.node) if isinstance(c.func, ast.Name) and c.func.id == "next"]
    ctx.check(len(nx) == 1, ro, ro.node, "the first potential offset is taken", "offset choice changed")


@rule("C07.5", ["C07", "C17"], "the InsertionContext names the original block, offset and function", 2)
def c07_5(ctx: Ctx):
    fi = ctx.repo.func("rewriting.RewritingContext._apply_modifications")
    cs = [c for c in calls_in(fi.node) if src(c.func) == "InsertionContext"]
    ok = len(cs) == 1 and [src(a) for a in cs[0].args] == ["self._module", "func", "block", "offset"] and not cs[0].keywords
    ctx.check(ok, fi, cs[0] if cs else fi.node, "InsertionContext(self._module, func, block, offset)",
              f"context is built from {[src(a) for a in cs[0].args] if cs else '?'}: patches must see the block/offset that was asked for, "
              "not the internal block that currently holds the bytes")
    ip = [c for c in calls_in(fi.node) if src(c.func) == "self._invoke_patch"]
    ok = len(ip) == 1 and [src(a) for a in ip[0].args] == ["modification.patch", "actual_block", "actual_offset", "context"]
    ctx.check(ok, fi, ip[0] if ip else fi.node, "_invoke_patch(patch, actual_block, actual_offset, context)", "arguments changed")
    inv = ctx.repo.func("rewriting.RewritingContext._invoke_patch")
    ga = [c for c in calls_in(inv.node) if src(c.func) == "patch.get_asm"]
    ok = len(ga) == 1 and isinstance(ga[0].args[0], ast.Call) and src(ga[0].args[0].func) == "dataclasses.replace" and src(ga[0].args[0].args[0]) == "context"
    if ok:
        kws = {k.arg: src(k.value) for k in ga[0].args[0].keywords}
        ok = kws == {"stack_adjustment": "stack_adjustment", "scratch_registers": "registers.scratch_registers"}
    ctx.check(ok, inv, ga[0] if ga else inv.node, "the patch receives the context plus stack_adjustment and scratch registers", "context passed to get_asm changed")


@rule("C07.6", ["C07"], "PassManager: one context per module; all begin_module, then one apply, then all end_module", 5)
def c07_6(ctx: Ctx):
    fi = ctx.repo.func("passes.PassManager.run")
    lin = linear(fi.node)
    mods = [g for g in lin.stmts if isinstance(g.node, ast.For) and src(g.node.iter) == "ir.modules"]
    if len(mods) != 1:
        raise AnalysisError("PassManager.run: module loop not found")
    mloop = mods[0].node
    ctxs = [g for g in lin.stmts if isinstance(g.node, ast.Assign) and src(g.node.targets[0]) == "context" and "RewritingContext(" in src(g.node.value)]
    beg = [(g, c) for g, c in lin.all_calls() if src(c.func) == "pass_inst.begin_module"]
    app = [(g, c) for g, c in lin.all_calls() if src(c.func) == "context.apply"]
    end = [(g, c) for g, c in lin.all_calls() if src(c.func) == "pass_inst.end_module"]
    ok = len(ctxs) == 1 and ctxs[0].loops == (mloop,)
    ctx.check(ok, fi, ctxs[0].node if ctxs else fi.node, "one RewritingContext per module", "context creation moved")
    ok = len(beg) == 1 and len(app) == 1 and len(end) == 1
    ctx.check(ok, fi, fi.node, "begin_module / apply / end_module present once each", f"{len(beg)}/{len(app)}/{len(end)}")
    if ok:
        ctx.check(app[0][0].loops == (mloop,), fi, app[0][1], "apply() is called once per module, outside the pass loops",
                  "apply() is inside a pass loop: passes registered later would be applied in a second rewrite (registration order across passes is lost)")
        ctx.check(len(beg[0][0].loops) == 2 and src(beg[0][0].loops[1].iter) == "self._passes" and len(end[0][0].loops) == 2 and src(end[0][0].loops[1].iter) == "self._passes",
                  fi, fi.node, "every pass gets begin_module and end_module", "pass loops changed")
        ctx.check(ctxs and ctxs[0].index < beg[0][0].index < app[0][0].index < end[0][0].index, fi, fi.node, "order: context, begin_module*, apply, end_module*", "order changed")
        ctx.check([src(a) for a in beg[0][1].args] == ["mod", "functions", "context"], fi, beg[0][1], "begin_module(mod, functions, context)", "arguments changed")
    ad = ctx.repo.func("passes.PassManager.add")
    ctx.check("self._passes.append(pass_inst)" in src(ad.node), ad, ad.node, "passes are kept in registration order", "pass list handling changed")


@rule("C07.8", ["C07", "C01"], "optional function filters are tested with `is None`, never by truthiness (an empty filter is a filter)", 2)
def c07_8(ctx: Ctx):
    repo = ctx.repo
    n = 0
    for cname in ("AllBlocksScope", "AllFunctionsScope"):
        cls = repo.cls(f"scopes.{cname}")
        init = cls.methods["__init__"]
        opt = []
        for a in init.params:
            if a.annotation is not None and src(a.annotation).startswith("Optional[Set"):
                opt.append(a.arg)
        for attr in opt:
            for m in cls.methods.values():
                for node in ast.walk(m.node):
                    bad = None
                    if isinstance(node, ast.UnaryOp) and isinstance(node.op, ast.Not) and src(node.operand) == f"self.{attr}":
                        bad = node
                    if isinstance(node, (ast.If, ast.IfExp, ast.While)) and src(node.test) == f"self.{attr}":
                        bad = node.test
                    if isinstance(node, ast.BoolOp):
                        for v in node.values:
                            if src(v) == f"self.{attr}":
                                bad = v
                    if bad is not None:
                        ctx.fail(m, bad, f"{cname}.{attr} truthiness test",
                                 f"`self.{attr}` is tested by truthiness: an empty set (a filter that matches nothing/excludes nothing) is treated like None")
                    if isinstance(node, ast.Compare) and src(node.left) == f"self.{attr}" and isinstance(node.ops[0], (ast.Is, ast.IsNot)):
                        n += 1
                        ctx.ok(m, node, f"{cname}.{attr}: `{src(node)}`")
    if n < 2 and not any(i.verdict == "violation" for i in ctx.instances):
        raise AnalysisError(f"only {n} `is None` tests of optional filters found")
    fm = repo.cls("scopes.AllFunctionsScope").methods["_block_matches"]
    lin = linear(fm.node)
    rets = [g for g in lin.stmts if isinstance(g.node, ast.Return)]
    ent = [g for g in rets if src(g.node.value) == "block in func.get_entry_blocks()" and lin.under(g, "self.position == FunctionPosition.ENTRY")]
    ext = [g for g in rets if src(g.node.value) == "block in func.get_exit_blocks()" and lin.under(g, "self.position == FunctionPosition.EXIT")]
    ctx.check(len(ent) == 1 and len(ext) == 1, fm, fm.node, "ENTRY -> entry blocks, EXIT -> exit blocks", "function position mapping changed")
    none = [g for g in rets if src(g.node.value) == "False" and lin.under(g, "func is None")]
    ctx.check(len(none) == 1, fm, fm.node, "blocks outside any function never match a function scope", "changed")
    fb = repo.cls("scopes.AllBlocksScope").methods["_block_matches"]
    lb = linear(fb.node)
    rets = [g for g in lb.stmts if isinstance(g.node, ast.Return)]
    ok = any(src(g.node.value) == "False" and lb.under(g, "not isinstance(block, gtirb.CodeBlock)") for g in rets) and \
        any(src(g.node.value) == "not pattern_match(module, func, self.exclude_functions)" for g in rets)
    ctx.check(ok, fb, fb.node, "AllBlocksScope: code blocks only, minus excluded functions", "AllBlocksScope matching changed")
