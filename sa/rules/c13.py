"""C13 - assembler symbol discipline and incremental assembly."""

from __future__ import annotations

import ast
from typing import List, Set

from ..astx import calls_in, f_atoms, f_show, linear, single_assign_value, src, walk_no_nested
from ..core import AnalysisError, Ctx, rule

AS = "assembler.assembler."


@rule("C13.1", ["C13"], "a label's symbol is created under exactly the names that were checked for duplicates", 6)
def c13_1(ctx: Ctx):
    repo = ctx.repo
    fi = repo.func(AS + "_SymbolCreator._precreate_label")
    lin = linear(fi.node)
    created = [c for c in calls_in(fi.node) if src(c.func) == "gtirb.Symbol"]
    if len(created) != 1:
        raise AnalysisError("_precreate_label: symbol creation not found")
    name = None
    for k in created[0].keywords:
        if k.arg == "name":
            name = src(k.value)
    if name is None and created[0].args:
        name = src(created[0].args[0])
    raises = [g for g in lin.stmts if isinstance(g.node, ast.Raise) and "MultipleDefinitionsError" in src(g.node)]
    if len(raises) != 1:
        ctx.fail(fi, fi.node, "duplicate definitions raise MultipleDefinitionsError", f"{len(raises)} raise statements")
        return
    cond_atoms = {a[0] for a in f_atoms(raises[0].guard)}
    looked = set()
    local_keys = set()
    for a in cond_atoms:
        try:
            e = ast.parse(a, mode="eval").body
        except SyntaxError:
            continue
        for n in ast.walk(e):
            if isinstance(n, ast.Call) and src(n.func) == "self._state.target.symbol_lookup" and n.args:
                looked.add(src(n.args[0]))
            if isinstance(n, ast.Compare) and isinstance(n.ops[0], ast.In) and src(n.comparators[0]) == "self._state.local_symbols":
                local_keys.add(src(n.left))
    ctx.check(name in looked, fi, created[0], f"the created name `{name}` was looked up in the target module",
              f"the symbol is created as `{name}` but only {sorted(looked)} were checked against the module: with a temporary-label suffix the module may "
              f"already hold a symbol of the suffixed name (second rewriting context, or a user symbol named like it) and ends up with two", key="C13.1::created-name-checked")
    ctx.check("label.name" in looked, fi, fi.node, "the written label name itself is checked against the module (defining an existing name is an error)",
              f"looked-up names: {sorted(looked)}")
    stores = [g for g in lin.stmts if isinstance(g.node, ast.Assign) and isinstance(g.node.targets[0], ast.Subscript) and src(g.node.targets[0].value) == "self._state.local_symbols"]
    skeys = {src(g.node.targets[0].slice) for g in stores}
    ctx.check(len(stores) == 1 and skeys == local_keys and len(skeys) == 1, fi, stores[0].node if stores else fi.node,
              "the local table is tested and filled under the same key",
              f"local_symbols is tested with key {sorted(local_keys)} but filled with key {sorted(skeys)}: a label defined again in a later assemble() call is accepted, "
              "giving two symbols with one name")
    # readers of the table use the same key
    el = repo.func(AS + "_Streamer.emit_label")
    rd = [n for n in ast.walk(el.node) if isinstance(n, ast.Subscript) and src(n.value) == "self._state.local_symbols"]
    ctx.check(len(rd) == 1 and src(rd[0].slice) == "symbol.name" and skeys == {"label.name"}, el, rd[0] if rd else el.node,
              "emit_label finds the pre-created symbol under the label's written name", f"reader key {src(rd[0].slice) if rd else '?'}, writer key {sorted(skeys)}")
    ctx.check(raises[0].index < lin.of(created[0]).index, fi, fi.node, "duplicates are refused before the symbol is created", "order changed")
    # suffix rule
    aug = [g for g in lin.stmts if isinstance(g.node, ast.AugAssign) and src(g.node.target) == "symbol_name"]
    ok = len(aug) == 1 and src(aug[0].node.value) == "self._state.temp_symbol_suffix" and lin.under(aug[0], "label.is_temporary") and lin.under(aug[0], "self._state.temp_symbol_suffix is not None")
    if ok:
        extra = {a[0] for a in f_atoms(aug[0].guard)} - {"label.is_temporary", "self._state.temp_symbol_suffix is None"}
        ok = not extra
    ctx.check(ok, fi, aug[0].node if aug else fi.node, "the suffix is appended iff the label is temporary and a suffix was given",
              "suffix condition changed (non-temporary labels renamed, or temporaries left unsuffixed so two copies of a patch collide)")
    sn = [g for g in lin.stmts if isinstance(g.node, ast.Assign) and src(g.node.targets[0]) == "symbol_name"]
    ctx.check(len(sn) == 1 and src(sn[0].node.value) == "label.name", fi, sn[0].node if sn else fi.node, "the base name is the label's written name", "changed")


@rule("C13.2", ["C13", "C04"], "names bind to the module's own symbol object; unknown names are an error or exactly one proxy-backed symbol", 8)
def c13_2(ctx: Ctx):
    repo = ctx.repo
    fi = repo.func(AS + "_Streamer._symbol_lookup")
    lin = linear(fi.node)
    for q in ("_symbol_lookup", "_resolve_symbol", "_resolve_symbol_ref"):
        f = repo.func(AS + "_Streamer." + q)
        ctx.check(not f.node.decorator_list, f, f.node, f"{q} is not memoised",
                  f"{q} is decorated with {[src(d) for d in f.node.decorator_list]}: a cached `not found` hides symbols registered later (each further reference creates another proxy symbol)")
    rets = [g for g in lin.stmts if isinstance(g.node, ast.Return)]
    binds = [g for g in lin.stmts if isinstance(g.node, ast.Assign) and src(g.node.targets[0]) == "sym"]
    ok = len(binds) == 2 and src(binds[0].node.value).replace(" ", "") == "self._state.local_symbols.get(name,None)" and src(binds[1].node.value).replace(" ", "") == "next(self._state.target.symbol_lookup(name),None)"
    ctx.check(ok, fi, fi.node, "lookup order: symbols of this assembly first, then the target module", f"bindings: {[src(g.node.value) for g in binds]}")
    ok = [src(g.node.value) for g in rets] == ["sym", "sym", "None"] and len(binds) == 2 and rets[0].index > binds[0].index and rets[0].index < binds[1].index
    ctx.check(ok, fi, fi.node, "the found object itself is returned (identity), None when unknown", f"returns: {[src(g.node.value) for g in rets]}")
    rs = repo.func(AS + "_Streamer._resolve_symbol")
    lr = linear(rs.node)
    r = [g for g in lr.stmts if isinstance(g.node, ast.Raise)]
    ok = len(r) == 1 and "UndefSymbolError" in src(r[0].node) and lr.under(r[0], "not gt_sym") and lr.under(r[0], "not self._state.allow_undef_symbols")
    ctx.check(ok, rs, r[0].node if r else rs.node, "unknown name without allow_undef_symbols -> UndefSymbolError", "refusal changed")
    mk = [g for g in lr.stmts if isinstance(g.node, ast.Assign) and src(g.node.targets[0]) == "gt_sym" and "gtirb.Symbol" in src(g.node.value)]
    st = [g for g in lr.stmts if isinstance(g.node, ast.Assign) and src(g.node.targets[0]) == "self._state.local_symbols[sym.name]" and src(g.node.value) == "gt_sym"]
    pr = [(g, c) for g, c in lr.all_calls() if src(c) == "self._state.proxies.add(proxy)"]
    ok = len(mk) == 1 and len(st) == 1 and len(pr) == 1 and lr.under(mk[0], "not gt_sym") and mk[0].guard == st[0].guard == pr[0][0].guard and "payload=proxy" in src(mk[0].node.value)
    ctx.check(ok, rs, mk[0].node if mk else rs.node, "an allowed undefined name becomes one proxy-backed symbol that is recorded (second reference finds it)",
              "the new symbol is not recorded under its name / its proxy is not registered")
    lk = [g for g in lr.stmts if isinstance(g.node, ast.Assign) and src(g.node.targets[0]) == "gt_sym" and src(g.node.value) == "self._symbol_lookup(sym.name)"]
    ctx.check(len(lk) == 1 and lk[0].top, rs, rs.node, "resolution starts with the lookup", "changed")
    mt = repo.func(AS + "Assembler.ModuleTarget.__init__")
    t = " ".join(src(mt.node).split())
    ctx.check("symbol_lookup=module.symbols_named if not detached else _null_lookup" in t, mt, mt.node, "a module target looks names up in module.symbols_named", "module lookup changed")


@rule("C13.4", ["C13"], "assembler state persists across assemble() calls and is replaced only by finalize(); one assembler per patch", 7)
def c13_4(ctx: Ctx):
    repo = ctx.repo
    fa = repo.func(AS + "Assembler.assemble")
    writes = []
    for n in ast.walk(fa.node):
        tgt = None
        if isinstance(n, ast.Assign):
            tgt = n.targets[0]
        elif isinstance(n, ast.AugAssign):
            tgt = n.target
        if tgt is not None and src(tgt).startswith("self."):
            writes.append(src(tgt))
    ctx.check(writes == ["self._state.had_error"], fa, fa.node, "assemble() resets only the error flag",
              f"assemble() writes {writes}: resetting other state between chunks makes chunked assembly differ from assembling the concatenation")
    cs = [src(c) for c in calls_in(fa.node) if src(c.func) == "assembler.assemble"]
    ctx.check(cs == ["assembler.assemble(_SymbolCreator(self._state), asm)", "assembler.assemble(_Streamer(self._state), asm)"], fa, fa.node,
              "two passes over the same text and the same state: label pre-creation, then streaming", f"passes: {cs}")
    ff = repo.func(AS + "Assembler.finalize")
    fw = [n for n in walk_no_nested(ff.node) if isinstance(n, ast.Assign) and src(n.targets[0]) == "self._state"]
    ctx.check(len(fw) == 1 and src(fw[0].value.func) == "_State", ff, fw[0] if fw else ff.node, "finalize() installs a fresh state", "changed")
    others = []
    cls = repo.cls(AS + "Assembler")
    for name, m in cls.methods.items():
        if name in ("__init__", "finalize"):
            continue
        for n in ast.walk(m.node):
            if isinstance(n, ast.Assign) and src(n.targets[0]) == "self._state":
                others.append(name)
    ctx.check(not others, cls.methods["__init__"], None, "no other method replaces the state", f"state replaced in {others}")
    ip = repo.func("rewriting.RewritingContext._invoke_patch")
    lin = linear(ip.node)
    ctor = [(g, c) for g, c in lin.all_calls() if isinstance(c.func, ast.Name) and c.func.id == "Assembler"]
    asm = [(g, c) for g, c in lin.all_calls() if src(c.func) == "assembler.assemble"]
    fin = [(g, c) for g, c in lin.all_calls() if src(c.func) == "assembler.finalize"]
    ok = len(ctor) == 1 and len(asm) == 3 and len(fin) == 1 and ctor[0][0].index < asm[0][0].index and asm[-1][0].index < fin[0][0].index
    ctx.check(ok, ip, ip.node, "one assembler per patch: prologue, body, epilogue, then finalize once", "assembler usage changed")
    if len(asm) == 3:
        args = [src(c.args[0]) for _, c in asm]
        ctx.check(args == ["snippet.code", "asm", "snippet.code"] and src(asm[0][0].loops[0].iter) == "prologue" and src(asm[2][0].loops[0].iter) == "epilogue", ip, ip.node,
                  "order: every prologue snippet, the patch body, every epilogue snippet", f"assemble arguments {args}")
    st = repo.cls(AS + "_State")
    fields = [s.target.id for s in st.node.body if isinstance(s, ast.AnnAssign) and isinstance(s.target, ast.Name)]
    for f in ("cfg", "local_symbols", "proxies", "sections", "blocks_with_code", "block_types", "elf_symbol_attributes"):
        ctx.check(f in fields, repo.mod("assembler.assembler"), st.node, f"_State carries {f} across calls", f"_State has no field {f}", key=f"C13.4::state::{f}")
