"""C01 - bytes are edited exactly like the listing (structure of the splice arithmetic)."""

from __future__ import annotations

import ast
from typing import List, Optional

from ..astx import (
    FALSE,
    TRUE,
    attr_path,
    calls_in,
    f_show,
    implies,
    linear,
    single_assign_value,
    src,
    walk_no_nested,
)
from ..core import AnalysisError, Ctx, FuncInfo, rule
from ..region import Unknown, lin_show, linform, minieval


@rule("C01.1", ["C01"], "edit_byte_interval splices exactly: head + content + tail, size grows by the delta", 3)
def c01_1(ctx: Ctx):
    fi = ctx.repo.func("_modify.edit.edit_byte_interval")
    assigns = [
        n for n in walk_no_nested(fi.node)
        if isinstance(n, ast.Assign) and src(n.targets[0]) == "bi.contents"
    ]
    if len(assigns) != 1:
        raise AnalysisError(f"edit_byte_interval: {len(assigns)} assignments to bi.contents")
    v = assigns[0].value
    # flatten a + b + c
    parts: List[ast.expr] = []

    def flat(n):
        if isinstance(n, ast.BinOp) and isinstance(n.op, ast.Add):
            flat(n.left)
            flat(n.right)
        else:
            parts.append(n)

    flat(v)
    ok = len(parts) == 3
    detail = f"contents = {src(v)}"
    if ok:
        h, c, t = parts
        ok = (
            isinstance(h, ast.Subscript) and src(h.value) == "bi.contents"
            and isinstance(h.slice, ast.Slice) and h.slice.lower is None
            and h.slice.upper is not None and src(h.slice.upper) == "offset"
            and src(c) == "content"
            and isinstance(t, ast.Subscript) and src(t.value) == "bi.contents"
            and isinstance(t.slice, ast.Slice) and t.slice.upper is None
            and t.slice.lower is not None
            and linform(t.slice.lower) == {"offset": 1, "length": 1}
        )
    ctx.check(ok, fi, assigns[0], "bi.contents = contents[:offset] + content + contents[offset+length:]",
              f"{detail}: surviving bytes would be lost, duplicated or reordered")
    sz = [n for n in walk_no_nested(fi.node) if isinstance(n, ast.AugAssign) and src(n.target) == "bi.size"]
    ctx.check(len(sz) == 1 and isinstance(sz[0].op, ast.Add) and src(sz[0].value) == "size_delta",
              fi, sz[0] if sz else fi.node, "bi.size += size_delta", "interval size is not adjusted by exactly the size delta")
    sd = single_assign_value(fi.node, "size_delta")
    ctx.check(sd is not None and linform(sd) == {"len(content)": 1, "length": -1}, fi, sd or fi.node,
              "size_delta = len(content) - length", f"size_delta = {src(sd) if sd else '?'}")


@rule("C01.2", ["C01"], "blocks at or after the edit point shift, earlier and static ones do not", 1)
def c01_2(ctx: Ctx):
    fi = ctx.repo.func("_modify.edit.edit_byte_interval")
    loops = [n for n in walk_no_nested(fi.node) if isinstance(n, ast.For) and src(n.iter) == "bi.blocks"]
    if len(loops) != 1:
        raise AnalysisError("edit_byte_interval: loop over bi.blocks not found")
    lp = loops[0]
    b = src(lp.target)
    lin = linear(fi.node)
    shifts = [n for n in ast.walk(lp) if isinstance(n, (ast.AugAssign, ast.Assign)) and src(n.target if isinstance(n, ast.AugAssign) else n.targets[0]) == f"{b}.offset"]
    if len(shifts) != 1:
        raise AnalysisError("edit_byte_interval: block shift statement not found")
    sh = shifts[0]
    # the new offset of a moved block as an expression of (old offset, edit offset, size delta)
    newoff = ast.BinOp(ast.parse(f"{b}.offset", mode="eval").body, sh.op, sh.value) if isinstance(sh, ast.AugAssign) else sh.value
    wrong = []
    for bo, off, delta in ((3, 3, 2), (5, 3, 2), (7, 3, -2), (9, 3, -4), (5, 3, 0)):  # blocks behind the edited range: plain shift
        try:
            got = minieval(newoff, {f"{b}.offset": bo, "offset": off, "size_delta": delta})
        except Unknown as exc:
            raise AnalysisError(f"block shift expression not interpretable: {exc}")
        if got != bo + delta:
            wrong.append((bo, off, delta, got))
    ctx.check(not wrong, fi, sh, "a block behind the edited range moves by exactly size_delta",
              f"blocks move to `{src(newoff)}`; (block offset, edit offset, delta, new offset) = {wrong[:3]}")
    # the guard of the shift relative to the loop body, as an expression to tabulate
    conds: List[ast.expr] = []
    for n in ast.walk(lp):
        if isinstance(n, ast.If) and any(x is sh for x in ast.walk(n)):
            if any(x is sh for s in n.body for x in ast.walk(s)):
                conds.append(n.test)
            else:
                conds.append(ast.UnaryOp(ast.Not(), n.test))
    cond = conds[0] if len(conds) == 1 else ast.BoolOp(ast.And(), conds)
    bad = []
    n_pts = 0
    for bo in range(0, 7):
        for static in (False, True):
            env = {f"{b}.offset": bo, "offset": 3, f"{b} not in static_blocks": not static, f"{b} in static_blocks": static}
            try:
                got = bool(minieval(cond, env)) if conds else True
            except Unknown as exc:
                raise AnalysisError(f"block shift predicate not interpretable: {exc}")
            want = bo >= 3 and not static
            n_pts += 1
            if got != want:
                bad.append((bo, static, got))
    ctx.check(not bad, fi, sh, "shift iff block.offset >= offset and block not static",
              f"predicate `{src(cond) if conds else 'True'}` differs from the spec at (block offset, static, moves) = {bad[:3]} with edit offset 3: "
              "a block starting at the edit point must move, the edited block itself must not",
              reason_ok=f"{n_pts} order types")


@rule("C01.4", ["C01", "C02", "C05", "C10"], "delete(): split, remove, then splice out exactly the requested range with the edited block static", 6)
def c01_4(ctx: Ctx):
    fi = ctx.repo.func("_modify.edit.delete")
    lin = linear(fi.node)
    ebis = [(g, c) for g, c in lin.all_calls() if isinstance(c.func, ast.Name) and c.func.id == "edit_byte_interval"]
    if len(ebis) != 2:
        raise AnalysisError(f"delete(): expected 2 edit_byte_interval calls, found {len(ebis)}")
    for g, c in ebis:
        partial = lin.under(g, "length != block.size")
        blk = "start" if partial else "block"
        tag = "partial" if partial else "whole-block"
        a = c.args
        ctx.check(len(a) >= 5, fi, c, f"{tag}: static blocks passed to edit_byte_interval",
                  f"edit_byte_interval is called without the static block set: the {'head' if partial else 'kept zero-sized'} block itself would be shifted back by the deleted length")
        if len(a) < 4:
            continue
        ctx.check(src(a[0]) == "bi", fi, c, f"{tag}: edits the block's interval", f"interval argument is {src(a[0])}")
        ctx.check(linform(a[1]) == {f"{blk}.offset": 1, "offset": 1}, fi, c, f"{tag}: offset == {blk}.offset + offset",
                  f"offset argument is {src(a[1])}")
        ctx.check(src(a[2]) == "length", fi, c, f"{tag}: length == length", f"length argument is {src(a[2])}")
        ctx.check(isinstance(a[3], ast.Constant) and a[3].value == b"", fi, c, f"{tag}: content is empty", f"content is {src(a[3])}")
        if len(a) >= 5:
            ctx.check(src(a[4]).replace(" ", "") == "{" + blk + "}", fi, c, f"{tag}: {{{blk}}} is static", f"static set is {src(a[4])}")
        # order: remove_block before the splice
        rm = [gg for gg, cc in lin.all_calls() if isinstance(cc.func, ast.Name) and cc.func.id == "remove_block"
              and gg.index < g.index and implies(g.guard, gg.guard)]
        ctx.check(bool(rm), fi, c, f"{tag}: remove_block precedes the splice",
                  "bytes are spliced out before the block covering them is removed")
    # partial branch: two splits at offset and then length
    sp = [(g, c) for g, c in lin.all_calls() if isinstance(c.func, ast.Name) and c.func.id == "split_block"]
    ok = (
        len(sp) == 2
        and src(sp[0][1].args[1]) == "block" and src(sp[0][1].args[2]) == "offset"
        and src(sp[1][1].args[1]) == "end" and src(sp[1][1].args[2]) == "length"
        and sp[0][0].index < sp[1][0].index
    )
    ctx.check(ok, fi, fi.node, "partial: split at offset, then split the tail at length", "split arguments changed")
    # the removed block is the middle one
    rmc = [c for g, c in lin.all_calls() if isinstance(c.func, ast.Name) and c.func.id == "remove_block" and lin.under(g, "length != block.size")]
    ctx.check(any(src(c.args[1]) == "mid" for c in rmc if len(c.args) > 1), fi, fi.node, "partial: the middle block is removed", "remove_block is not applied to the middle block")
    # no-op guard
    early = [g for g in lin.stmts if isinstance(g.node, ast.Return) and src(g.node.value or ast.Constant(None)) == "block"]
    ok = bool(early) and "length == 0" in f_show(early[0].guard) and "block.size" in f_show(early[0].guard)
    ctx.check(ok, fi, early[0].node if early else fi.node, "empty range on a non-empty block is a no-op", "the early return for an empty deletion changed")


@rule("C01.5", ["C01", "C07", "C09"], "_apply_modifications accounts net growth and computes the actual offset from it", 6)
def c01_5(ctx: Ctx):
    fi = ctx.repo.func("rewriting.RewritingContext._apply_modifications")
    lin = linear(fi.node)
    R = "modification.scope._replacement_length()"
    bd = single_assign_value(fi.node, "block_delta")
    ctx.check(bd is not None and linform(bd) == {"actual_block.offset": 1, "block.offset": -1}, fi, bd or fi.node,
              "block_delta == actual_block.offset - block.offset", f"block_delta = {src(bd) if bd else '?'}")
    ao = single_assign_value(fi.node, "actual_offset")
    ctx.check(ao is not None and linform(ao) == {"offset": 1, "total_insert_len": 1, "block_delta": -1}, fi, ao or fi.node,
              "actual_offset == offset + total_insert_len - block_delta", f"actual_offset = {src(ao) if ao else '?'}")
    augs = [g for g in lin.stmts if isinstance(g.node, ast.AugAssign) and src(g.node.target) == "total_insert_len"]
    ins = [g for g in augs if lin.under(g, "isinstance(modification, _InsertionOrReplacement)")]
    dele = [g for g in augs if lin.under(g, "isinstance(modification, _Deletion)")]
    ok_i = len(ins) == 1 and isinstance(ins[0].node.op, ast.Add) and linform(ins[0].node.value) == {"insert_len": 1, R: -1}
    ctx.check(ok_i, fi, ins[0].node if ins else fi.node, "insertion: total_insert_len += insert_len - replacement_length",
              f"insertion branch accounts `{src(ins[0].node.value) if ins else 'nothing'}`: later edits in the block land at the wrong offset")
    ok_d = len(dele) == 1 and (
        (isinstance(dele[0].node.op, ast.Sub) and linform(dele[0].node.value) == {R: 1})
        or (isinstance(dele[0].node.op, ast.Add) and linform(dele[0].node.value) == {R: -1})
    )
    ctx.check(ok_d, fi, dele[0].node if dele else fi.node, "deletion: total_insert_len -= replacement_length",
              "deletion branch does not subtract the deleted length")
    ctx.check(len(augs) == 2, fi, fi.node, "exactly two updates of total_insert_len", f"{len(augs)} updates")
    init = [g for g in lin.stmts if isinstance(g.node, ast.Assign) and src(g.node.targets[0]) == "total_insert_len"]
    ctx.check(len(init) == 1 and src(init[0].node.value) == "0" and not init[0].loops, fi, init[0].node if init else fi.node,
              "total_insert_len starts at 0 per block", "initialisation changed")
    # actual_block rebound from both calls
    reb = [g for g in lin.stmts if isinstance(g.node, ast.Assign) and "actual_block" in [src(t) for t in (g.node.targets[0].elts if isinstance(g.node.targets[0], ast.Tuple) else [g.node.targets[0]])] and g.loops]
    ctx.check(len(reb) == 2, fi, fi.node, "actual_block is rebound from the result of insert and delete",
              f"{len(reb)} rebinding(s) inside the loop")
    # insert_len comes from len(assembler_result.text_section.data)
    iar = ctx.repo.func("rewriting.RewritingContext._insert_assembler_result")
    rets = [n for n in walk_no_nested(iar.node) if isinstance(n, ast.Return)]
    ok = len(rets) == 1 and isinstance(rets[0].value, ast.Tuple) and src(rets[0].value.elts[1]) == "len(assembler_result.text_section.data)" and src(rets[0].value.elts[0]) == "new_end"
    ctx.check(ok, iar, rets[0] if rets else iar.node, "insert length is len(text_section.data) and the end block is insert()'s result",
              "the returned (end block, inserted length) pair changed")
    # arguments of the insertion/deletion
    for name, expect in (("self._insert_assembler_result", ["modify_cache", "actual_block", "actual_offset", R]),
                         ("delete", ["modify_cache", "actual_block", "actual_offset", R, "modification.retarget_to_proxy"])):
        cs = [c for c in calls_in(fi.node) if src(c.func) == name]
        ok = len(cs) == 1 and [src(a) for a in cs[0].args[: len(expect)]] == expect
        ctx.check(ok, fi, cs[0] if cs else fi.node, f"{name}(cache, actual_block, actual_offset, replacement_length, ...)",
                  f"arguments are {[src(a) for a in cs[0].args] if cs else '?'}")


@rule("C01.6", ["C01", "C07", "C11", "C09", "C04"], "modifications are ordered by (offset, registration id) and must not overlap", 6)
def c01_6(ctx: Ctx):
    repo = ctx.repo
    fi = repo.func("rewriting._ModificationStore.resolve_offsets")
    sorts = [c for c in calls_in(fi.node) if isinstance(c.func, ast.Attribute) and c.func.attr == "sort"] + [
        c for c in calls_in(fi.node) if isinstance(c.func, ast.Name) and c.func.id == "sorted"
    ]
    if not sorts:
        ctx.fail(fi, fi.node, "resolve_offsets sorts the modifications", "no sort at all: modifications are applied in registration order, the running offset translation of _apply_modifications "
                 "(which assumes ascending offsets) goes wrong and patches land at the wrong place", key="resolve_offsets::sort-present")
        return
    if len(sorts) != 1:
        raise AnalysisError(f"resolve_offsets: {len(sorts)} sort calls")
    s = sorts[0]
    key = None
    rev = None
    for k in s.keywords:
        if k.arg == "key":
            key = k.value
        if k.arg == "reverse":
            rev = k.value
    ok = False
    detail = "no key"
    if isinstance(key, ast.Lambda) and isinstance(key.body, ast.Tuple) and len(key.body.elts) == 2:
        p = key.args.args[0].arg
        e0, e1 = key.body.elts
        ok = src(e0) == f"{p}[1]" and src(e1) == f"{p}[0].id"
        detail = src(key.body)
    elif key is not None:
        detail = src(key)
    ctx.check(ok, fi, s, "sort key is (offset, modification.id)",
              f"sort key is `{detail}`: patches at the same offset are no longer applied in registration order "
              "(modifications_for_block lists block-specific requests before scope-matched ones)")
    ctx.check(rev is None or (isinstance(rev, ast.Constant) and not rev.value), fi, s, "ascending order", "sorted in reverse")
    # overlap assertion
    lin = linear(fi.node)
    asserts = [g for g in lin.stmts if isinstance(g.node, ast.Assert) and g.loops and "last_end" in src(g.node.test)]
    ok = len(asserts) == 1 and src(asserts[0].node.test).replace(" ", "") == "offset>=last_end"
    ctx.check(ok, fi, asserts[0].node if asserts else fi.node, "assert offset >= last_end", "overlap assertion changed or removed")
    le = [g for g in lin.stmts if isinstance(g.node, ast.Assign) and src(g.node.targets[0]) == "last_end" and g.loops]
    from ..astx import find_assign as _fa
    rl_alias = {a.targets[0].id: a.value for a in walk_no_nested(fi.node) if isinstance(a, ast.Assign) and len(a.targets) == 1 and isinstance(a.targets[0], ast.Name)
                and src(a.value) == "modification.scope._replacement_length()" and len(_fa(fi.node, a.targets[0].id)) == 1}
    ok = len(le) == 1 and linform(le[0].node.value, subst=rl_alias) == {"offset": 1, "modification.scope._replacement_length()": 1}
    ctx.check(ok, fi, le[0].node if le else fi.node, "last_end = offset + replacement_length",
              f"last_end = {src(le[0].node.value) if le else '?'}")
    if asserts and le:
        ctx.check(asserts[0].index < le[0].index and asserts[0].index > lin.of(s).index, fi, asserts[0].node,
                  "overlap check runs over the sorted list", "assertion is not between the sort and the update")
    # first potential offset
    nx = [c for c in calls_in(fi.node) if isinstance(c.func, ast.Name) and c.func.id == "next"]
    ctx.check(len(nx) == 1 and "_potential_offsets(block, instructions)" in src(nx[0]), fi, nx[0] if nx else fi.node,
              "offset = first of scope._potential_offsets(block, instructions)", "offset selection changed")
    # id provenance: next(self._modification_id) at 3 registration sites, nothing else touches the counter
    rc = repo.cls("rewriting.RewritingContext")
    uses = []
    for m in rc.methods.values():
        for n in ast.walk(m.node):
            if isinstance(n, ast.Attribute) and n.attr == "_modification_id":
                uses.append((m, n))
    sites = [
        (m, c) for m in rc.methods.values() for c in calls_in(m.node)
        if isinstance(c.func, ast.Name) and c.func.id == "next" and c.args and src(c.args[0]) == "self._modification_id"
    ]
    init = [(m, n) for m, n in uses if m.name == "__init__"]
    ctx.check(len(sites) == 3 and len(uses) == len(sites) + len(init) and len(init) == 1, rc.methods["__init__"], None,
              "ids come from next(self._modification_id) at the 3 registration sites only",
              f"{len(sites)} next() sites, {len(uses)} uses of the counter")
    cnt = [n for n in walk_no_nested(rc.methods["__init__"].node) if isinstance(n, ast.Assign) and src(n.targets[0]) == "self._modification_id"]
    ctx.check(len(cnt) == 1 and src(cnt[0].value) == "itertools.count()", rc.methods["__init__"], cnt[0] if cnt else None,
              "the counter is itertools.count()", "the id source changed")


@rule("C01.7", ["C01", "C10", "C02", "C05", "C06"], "every interval is split before the rewrite and every partition joined after it", 5)
def c01_7(ctx: Ctx):
    fi = ctx.repo.func("prepare.prepare_for_rewriting")
    lin = linear(fi.node)
    ys = [g for g in lin.stmts if isinstance(g.node, ast.Expr) and isinstance(g.node.value, ast.Yield)]
    if len(ys) != 1:
        raise AnalysisError("prepare_for_rewriting: expected exactly one yield")
    y = ys[0]
    sp = [(g, c) for g, c in lin.all_calls() if isinstance(c.func, ast.Name) and c.func.id == "split_byte_interval"]
    jn = [(g, c) for g, c in lin.all_calls() if isinstance(c.func, ast.Name) and c.func.id == "join_byte_intervals"]
    ok = len(sp) == 1 and sp[0][0].index < y.index and len(sp[0][0].loops) == 1
    it = src(sp[0][0].loops[0].iter) if ok else ""
    ctx.check(ok and "module.byte_intervals" in it, fi, sp[0][1] if sp else fi.node,
              "split_byte_interval over every interval of module.byte_intervals before the yield", f"split loop iterates `{it}`")
    ctx.check(ok and it.startswith(("tuple(", "list(")), fi, sp[0][1] if sp else fi.node,
              "iterates a snapshot (splitting adds intervals)", "iterates the live collection")
    ok = len(jn) == 1 and jn[0][0].index > y.index and len(jn[0][0].loops) == 1 and src(jn[0][0].loops[0].iter) == "partitions"
    ctx.check(ok, fi, jn[0][1] if jn else fi.node, "join_byte_intervals for every partition after the yield", "join loop changed")
    if jn:
        a = [src(x) for x in jn[0][1].args]
        ctx.check(a[:2] == ["partition", "nop"], fi, jn[0][1], "join(partition, nop, alignment)", f"arguments {a}")
    app = [c for c in calls_in(fi.node) if src(c.func) == "partitions.append"]
    ctx.check(len(app) == 1 and sp and any(x is sp[0][1] for x in ast.walk(app[0])), fi, app[0] if app else fi.node,
              "every split result is recorded in partitions", "split results are not all recorded")
    det = [g for g in lin.stmts if isinstance(g.node, ast.Assign) and src(g.node.targets[0]) == "interval.section" and g.index > y.index]
    ok = len(det) == 1 and isinstance(det[0].node.value, ast.Constant) and det[0].node.value.value is None
    if ok:
        lp = det[0].loops[-1]
        ok = src(lp.iter) == "partition[1:]"
    ctx.check(ok, fi, det[0].node if det else fi.node, "the emptied intervals partition[1:] are detached",
              "emptied intervals stay in the section (or the destination is detached)")
