"""C12 - assembler output matches the assembly text (structure of the streamer)."""

from __future__ import annotations

import ast
import itertools
from typing import Dict, List, Optional, Set

from ..astx import (
    calls_in,
    f_atoms,
    f_show,
    implies,
    linear,
    single_assign_value,
    src,
    walk_no_nested,
)
from ..core import AnalysisError, Ctx, rule
from ..region import Unknown, lin_show, linform, minieval

ST = "assembler.assembler._Streamer."


def _edge_kws(c: ast.Call) -> Dict[str, str]:
    """cfg.add(gtirb.Edge(source=.., target=.., label=..)) -> kw map of the Edge call."""
    if not c.args or not isinstance(c.args[0], ast.Call):
        return {}
    return {k.arg: src(k.value) for k in c.args[0].keywords if k.arg}


@rule("C12.1", ["C12", "C03"], "emit_instruction: edge kind, target, flags and fallthrough per instruction class", 14)
def c12_1(ctx: Ctx):
    repo = ctx.repo
    fi = repo.func(ST + "emit_instruction")
    lin = linear(fi.node)
    adds = [(g, c) for g, c in lin.all_calls() if src(c.func) == "self._state.cfg.add"]
    ret = [(g, c) for g, c in adds if lin.under(g, "inst.desc.is_return")]
    oth = [(g, c) for g, c in adds if lin.under(g, "not inst.desc.is_return")]
    ctx.check(len(ret) == 1 and len(oth) == 1, fi, fi.node, "one edge for returns, one for calls/branches", f"{len(ret)}/{len(oth)} cfg.add calls")
    if ret:
        kws = _edge_kws(ret[0][1])
        ok = kws.get("source") == "self._state.current_block" and kws.get("target") == "proxy" and "Type.Return" in kws.get("label", "")
        ctx.check(ok, fi, ret[0][1], "return: Return edge from the current block to a proxy", f"edge is {kws}")
        pv = [g for g in lin.stmts if isinstance(g.node, ast.Assign) and src(g.node.targets[0]) == "proxy"]
        reg = [(g, c) for g, c in lin.all_calls() if src(c) == "self._state.proxies.add(proxy)"]
        ok = len(pv) == 1 and src(pv[0].node.value) == "gtirb.ProxyBlock()" and len(reg) == 1 and lin.under(reg[0][0], "inst.desc.is_return")
        ctx.check(ok, fi, pv[0].node if pv else fi.node, "return: the proxy is fresh and registered", "proxy creation/registration changed")
    splits = [(g, c) for g, c in lin.all_calls() if src(c.func) == "self._split_block"]
    rs = [(g, c) for g, c in splits if lin.under(g, "inst.desc.is_return")]
    os_ = [(g, c) for g, c in splits if lin.under(g, "not inst.desc.is_return")]
    ok = len(rs) == 1 and not rs[0][1].args and not rs[0][1].keywords
    ctx.check(ok, fi, rs[0][1] if rs else fi.node, "return: the block ends, no fallthrough", "a return now falls through (or no longer ends its block)")
    if rs and ret:
        ctx.check(ret[0][0].index < rs[0][0].index, fi, rs[0][1], "return: edge added from the block that holds the instruction", "block is split before the edge is added")
    # call / branch
    if oth:
        g, c = oth[0]
        ctx.check(lin.under(g, "inst.desc.is_call or inst.desc.is_branch"), fi, c, "calls and branches get an edge", f"guard is {f_show(g.guard)}")
        kws = _edge_kws(c)
        ok = kws.get("source") == "self._state.current_block" and kws.get("target") == "target" and kws.get("label") == "edge_label"
        ctx.check(ok, fi, c, "edge from the current block to the resolved target with the computed label", f"edge is {kws}")
    labels = [g for g in lin.stmts if isinstance(g.node, ast.Assign) and src(g.node.targets[0]) == "edge_label"]
    call_l = [g for g in labels if lin.under(g, "inst.desc.is_call")]
    br_l = [g for g in labels if lin.under(g, "not inst.desc.is_call") and lin.under(g, "inst.desc.is_branch")]
    ok = len(call_l) == 1
    if ok:
        kws = {k.arg: src(k.value) for k in call_l[0].node.value.keywords}
        ok = "Type.Call" in kws.get("type", "") and kws.get("direct") == "direct" and "conditional" not in kws
    ctx.check(ok, fi, call_l[0].node if call_l else fi.node, "call: Call edge, direct flag from the target resolution", "call label changed")
    ok = len(br_l) == 1
    if ok:
        kws = {k.arg: src(k.value) for k in br_l[0].node.value.keywords}
        ok = "Type.Branch" in kws.get("type", "") and kws.get("direct") == "direct" and kws.get("conditional") == "inst.desc.is_conditional_branch"
    ctx.check(ok, fi, br_l[0].node if br_l else fi.node, "branch: Branch edge with conditional and direct flags", "branch label changed")
    tgt = [g for g in lin.stmts if isinstance(g.node, ast.Assign) and isinstance(g.node.targets[0], ast.Tuple) and [src(e) for e in g.node.targets[0].elts] == ["direct", "target"]]
    ok = len(tgt) == 1 and src(tgt[0].node.value).replace(" ", "") == "self._resolve_instruction_target(data,inst,fixups,state.loc)"
    ctx.check(ok, fi, tgt[0].node if tgt else fi.node, "(direct, target) = _resolve_instruction_target(data, inst, fixups, loc)", "target resolution changed")
    af = single_assign_value(fi.node, "add_fallthrough")
    if af is None:
        raise AnalysisError("emit_instruction: add_fallthrough not found")
    for is_call, is_cond in itertools.product((False, True), repeat=2):
        try:
            got = bool(minieval(af, {"inst.desc.is_call": is_call, "inst.desc.is_conditional_branch": is_cond}))
        except Unknown as exc:
            raise AnalysisError(f"add_fallthrough not interpretable: {exc}")
        want = is_call or is_cond
        ctx.check(got == want, fi, af, f"fallthrough row (call={is_call}, conditional={is_cond})",
                  f"fallthrough={got}, expected {want}: calls and conditional jumps continue with the next instruction, unconditional jumps do not",
                  key=f"C12.1::ft::{is_call}{is_cond}")
    ok = len(os_) == 1 and any(k.arg == "add_fallthrough" and src(k.value) == "add_fallthrough" for k in os_[0][1].keywords)
    ctx.check(ok, fi, os_[0][1] if os_ else fi.node, "the block is split after the transfer with that fallthrough decision", "split after call/branch changed")
    if oth and os_:
        ctx.check(oth[0][0].index < os_[0][0].index, fi, os_[0][1], "edge added before the split", "split precedes the edge")
    bw = [(g, c) for g, c in lin.all_calls() if src(c) == "self._state.blocks_with_code.add(self._state.current_block)"]
    ap = [(g, c) for g, c in lin.all_calls() if src(c.func) == "self._append_data"]
    ok = len(bw) == 1 and len(ap) == 1 and bw[0][0].top and ap[0][0].top and ap[0][0].index < bw[0][0].index and (not splits or bw[0][0].index < min(g.index for g, _ in splits))
    ctx.check(ok, fi, bw[0][1] if bw else fi.node, "every instruction marks its block as code before any split", "blocks_with_code bookkeeping moved")

    # target resolution
    fr = repo.func(ST + "_resolve_instruction_target")
    lr = linear(fr.node)
    rets = [g for g in lr.stmts if isinstance(g.node, ast.Return)]
    ind = [g for g in rets if src(g.node.value).replace(" ", "") == "(False,proxy)"]
    dire = [g for g in rets if src(g.node.value).replace(" ", "") == "(True,target_expr.symbol.referent)"]
    cond = "inst.desc.is_indirect_branch or _is_indirect_call(self._state.target.isa, inst)"
    ok = len(ind) == 1 and lr.under(ind[0], cond) and len(dire) == 1 and lr.under(dire[0], "not (" + cond + ")")
    ctx.check(ok, fr, fr.node, "indirect transfers -> (direct=False, proxy); direct ones -> (True, referent of the operand symbol)", "resolution table changed")
    reg = [(g, c) for g, c in lr.all_calls() if src(c) == "self._state.proxies.add(proxy)"]
    pv = [g for g in lr.stmts if isinstance(g.node, ast.Assign) and src(g.node.targets[0]) == "proxy" and src(g.node.value) == "gtirb.ProxyBlock()"]
    ctx.check(len(reg) == 1 and len(pv) == 1, fr, fr.node, "the indirect target is a fresh registered proxy", "changed")
    raises = [g for g in lr.stmts if isinstance(g.node, ast.Raise)]
    conds = ["not isinstance(target_expr, gtirb.SymAddrConst)", "target_expr.offset != 0", "not isinstance(target_expr.symbol.referent, gtirb.CfgNode)"]
    for cnd in conds:
        ctx.check(any(lr.under(g, cnd) for g in raises), fr, fr.node, f"refuses: {cnd}", f"no error raised when `{cnd}`")


@rule("C12.2", ["C12"], "section data has a single writer which grows the current block by the same length", 3)
def c12_2(ctx: Ctx):
    repo = ctx.repo
    writers = []
    for q, fi in repo.funcs.items():
        if not q.startswith("assembler.assembler."):
            continue
        for n in walk_no_nested(fi.node):
            tgt = None
            if isinstance(n, ast.AugAssign):
                tgt = n.target
            elif isinstance(n, ast.Assign):
                tgt = n.targets[0]
            if isinstance(tgt, ast.Attribute) and tgt.attr == "data" and "section" in src(tgt.value):
                writers.append((fi, n))
    ctx.check(len(writers) == 1 and writers[0][0].qual == ST + "_append_data", writers[0][0] if writers else repo.func(ST + "_append_data"),
              writers[0][1] if writers else None, "only _append_data writes section.data",
              f"section data is written in {[w[0].qual for w in writers]}: bytes appended elsewhere are not covered by the current block")
    fi = repo.func(ST + "_append_data")
    lin = linear(fi.node)
    d = [g for g in lin.stmts if isinstance(g.node, ast.AugAssign) and src(g.node.target) == "self._state.current_section.data" and src(g.node.value) == "data"]
    s = [g for g in lin.stmts if isinstance(g.node, ast.AugAssign) and src(g.node.target) == "self._state.current_block.size" and src(g.node.value) == "len(data)"]
    ctx.check(len(d) == 1 and len(s) == 1 and d[0].top and s[0].top, fi, fi.node, "data += data ; current_block.size += len(data)", "append/size update changed")
    lm = [g for g in lin.stmts if isinstance(g.node, ast.Assign) and "line_map" in src(g.node.targets[0])]
    ok = len(lm) == 1 and d and lm[0].index < d[0].index and "offset - self._state.current_block.offset" in src(lm[0].node.targets[0])
    ctx.check(ok, fi, lm[0].node if lm else fi.node, "line map entry at the pre-append offset relative to the block", "line map bookkeeping changed")


@rule("C12.3", ["C12", "C04"], "symbolic operands are keyed at the operand's offset, computed before the bytes are appended", 8)
def c12_3(ctx: Ctx):
    repo = ctx.repo
    fi = repo.func(ST + "emit_instruction")
    lin = linear(fi.node)
    pos = [g for g in lin.stmts if isinstance(g.node, ast.Assign) and src(g.node.targets[0]) == "pos"]
    ap = [(g, c) for g, c in lin.all_calls() if src(c.func) == "self._append_data"]
    ok = len(pos) == 1 and linform(pos[0].node.value) == {"len(self._state.current_section.data)": 1, "fixup.offset": 1}
    ctx.check(ok, fi, pos[0].node if pos else fi.node, "pos = len(section.data) + fixup.offset", f"pos = {src(pos[0].node.value) if pos else '?'}")
    ctx.check(bool(pos) and bool(ap) and pos[0].index < ap[0][0].index and len(pos[0].loops) == 1 and src(pos[0].loops[0].iter) == "fixups", fi, fi.node,
              "computed for every fixup before the instruction bytes are appended", "fixup positions are computed after the append (they would be off by the instruction length)")
    se = [g for g in lin.stmts if isinstance(g.node, ast.Assign) and src(g.node.targets[0]) == "self._state.current_section.symbolic_expressions[pos]"]
    sz = [g for g in lin.stmts if isinstance(g.node, ast.Assign) and src(g.node.targets[0]) == "self._state.current_section.symbolic_expression_sizes[pos]"]
    ok = len(se) == 1 and len(sz) == 1 and src(sz[0].node.value).replace(" ", "") == "fixup.kind_info.bit_size//8"
    ctx.check(ok, fi, sz[0].node if sz else fi.node, "expression and its size (bit_size // 8) are stored at pos", "expression/size stores changed")
    if se:
        c = se[0].node.value
        # (which transfers count as "branch operand" is C12.12's business)
        ok = isinstance(c, ast.Call) and src(c.func) == "self._fixup_to_symbolic_operand" and len(c.args) == 4 and [src(a) for a in (c.args[0], c.args[1], c.args[3])] == ["fixup", "data", "state.loc"]
        ctx.check(ok, fi, c, "_fixup_to_symbolic_operand(fixup, data, <is branch operand>, loc)", "arguments changed")
    fv = repo.func(ST + "emit_value_impl")
    lv = linear(fv.node)
    keys = [src(g.node.targets[0].slice) for g in lv.stmts if isinstance(g.node, ast.Assign) and isinstance(g.node.targets[0], ast.Subscript) and "symbolic_expression" in src(g.node.targets[0].value)]
    ap = [(g, c) for g, c in lv.all_calls() if src(c.func) == "self._append_data"]
    ok = keys == ["len(self._state.current_section.data)"] * 2 and len(ap) == 1 and all(
        g.index < ap[0][0].index for g in lv.stmts if isinstance(g.node, ast.Assign) and isinstance(g.node.targets[0], ast.Subscript))
    ctx.check(ok, fv, fv.node, "data values: expression and size keyed at the current end of data, before the placeholder bytes", "emit_value_impl keys/order changed")
    if ap:
        ctx.check(src(ap[0][1].args[0]).replace(" ", "") in ("b'\\x00'*size", 'b"\\x00"*size'), fv, ap[0][1], "placeholder is `size` zero bytes", "placeholder changed")
    sizes = [g for g in lv.stmts if isinstance(g.node, ast.Assign) and "symbolic_expression_sizes" in src(g.node.targets[0])]
    ctx.check(len(sizes) == 1 and src(sizes[0].node.value) == "size", fv, fv.node, "recorded size is the value's size", "size changed")
    # pc-relative unwrap
    fx = repo.func(ST + "_fixup_to_symbolic_operand")
    ifs = [n for n in walk_no_nested(fx.node) if isinstance(n, ast.If)]
    if len(ifs) != 1 or not isinstance(ifs[0].test, ast.BoolOp):
        raise AnalysisError("_fixup_to_symbolic_operand: unwrap condition not found")
    conj = ifs[0].test.values
    texts = [src(v) for v in conj]
    need = ["fixup.kind_info.is_pc_rel", "isinstance(expr, mcasm.mc.BinaryExpr)", "expr.opcode == mcasm.mc.BinaryExpr.Opcode.Add", "isinstance(expr.rhs, mcasm.mc.ConstantExpr)"]
    for t in need:
        ctx.check(t in texts, fx, ifs[0], f"unwrap requires `{t}`", "condition dropped")
    eqs = [v for v in conj if isinstance(v, ast.Compare) and ("len(encoding)" in src(v) or "fixup.offset" in src(v))]
    ok = len(eqs) == 1 and isinstance(eqs[0].ops[0], ast.Eq)
    if ok:
        l, r = eqs[0].left, eqs[0].comparators[0]
        diff = linform(ast.BinOp(l, ast.Sub(), r))
        ok = diff in ({"fixup.offset": 1, "expr.rhs.value": -1, "len(encoding)": -1}, {"fixup.offset": -1, "expr.rhs.value": 1, "len(encoding)": 1})
    ctx.check(ok, fx, eqs[0] if eqs else ifs[0],
              "the implicit PC adjustment is recognised exactly: fixup.offset - rhs == len(encoding)",
              f"adjustment test is `{src(eqs[0]) if eqs else texts}`: LLVM's constant is (fixup offset - instruction length); any other relation either leaves that "
              "constant in the addend (instructions with a trailing immediate) or swallows a user-written addend")
    ctx.check(len(ifs[0].body) == 1 and src(ifs[0].body[0]) == "expr = expr.lhs", fx, ifs[0], "unwrap keeps the left operand", "unwrap body changed")


@rule("C12.4", ["C12"], "finalize: empty-block removal, data conversion, trailing-block removal - in this order and under these conditions", 10)
def c12_4(ctx: Ctx):
    repo = ctx.repo
    A = "assembler.assembler.Assembler."
    fi = repo.func(A + "finalize")
    lin = linear(fi.node)
    order = [src(c.func) for g, c in lin.all_calls() if src(c.func).startswith("self._remove_") or src(c.func).startswith("self._convert_")]
    ctx.check(order == ["self._remove_empty_blocks", "self._convert_data_blocks", "self._remove_trailing_empty_block"], fi, fi.node,
              "per section: _remove_empty_blocks, _convert_data_blocks, _remove_trailing_empty_block", f"order is {order}")
    cd = repo.func(A + "_convert_data_blocks")
    ifs = [n for n in walk_no_nested(cd.node) if isinstance(n, ast.If) and "blocks_with_code" in src(n.test)]
    if len(ifs) != 1:
        raise AnalysisError("_convert_data_blocks: conversion condition not found")
    t = ifs[0].test
    atoms = {
        "size": "block.size",
        "code": "block not in self._state.blocks_with_code",
        "cfi": "cfi_index.get(block)",
        "exec": "gtirb.Section.Flag.Executable not in section.flags",
        "first": "i != 0",
        "unreach": "self._state.trivially_unreachable",
        "inedge": "any(self._state.cfg.in_edges(block))",
    }
    bad = []
    n = 0
    for size, nocode, cfi, nonexec, notfirst, unreach, inedge in itertools.product((False, True), repeat=7):
        env = {atoms["size"]: 4 if size else 0, atoms["code"]: nocode, atoms["cfi"]: ["p"] if cfi else None, atoms["exec"]: nonexec,
               atoms["first"]: notfirst, atoms["unreach"]: unreach, atoms["inedge"]: inedge}
        try:
            got = bool(minieval(t, env))
        except Unknown as exc:
            raise AnalysisError(f"data conversion condition not interpretable: {exc}")
        want = size and nocode and not cfi and (nonexec or notfirst or unreach) and not inedge
        n += 1
        if got != want:
            bad.append((size, nocode, cfi, nonexec, notfirst, unreach, inedge))
    ctx.check(not bad, cd, t, "a block becomes data iff it has bytes, no instruction, no CFI, is not the reachable entry, and nothing jumps to it",
              f"condition differs from the table in {len(bad)} of {n} rows, e.g. (size,no-code,cfi,non-exec,not-first,unreachable,in-edge)={bad[0] if bad else ''}")
    body = " ".join(src(s) for s in ifs[0].body)
    for need in ("gtirb.DataBlock(offset=block.offset, size=block.size, uuid=block.uuid)", "self._replace_symbol_referents(symbol_index, block, new_block)", "section.blocks[i] = new_block"):
        ctx.check(need in body, cd, ifs[0], f"conversion: `{need}`", "conversion step missing")
    tr = repo.func(A + "_remove_trailing_empty_block")
    lt = linear(tr.node)
    drops = [(g, c) for g, c in lt.all_calls() if src(c.func) == "drop_block"]
    ctx.check(len(drops) == 2, tr, tr.node, "two removal cases", f"{len(drops)} drop_block calls")
    defs = {n: single_assign_value(tr.node, n) for n in ("is_empty", "is_reachable", "is_referenced", "has_cfi_directives", "has_other_blocks")}
    want_defs = {
        "is_empty": "not section.blocks[-1].size",
        "is_referenced": "symbol_index.get(section.blocks[-1]) is not None",
        "has_cfi_directives": "bool(cfi_index.get(section.blocks[-1]))",
        "has_other_blocks": "len(section.blocks) >= 2",
    }
    for k, w in want_defs.items():
        ctx.check(defs[k] is not None and src(defs[k]) == w, tr, defs[k] or tr.node, f"{k} = {w}", f"{k} = {src(defs[k]) if defs[k] else '?'}")
    ctx.check(defs["is_reachable"] is not None and "in_edges(section.blocks[-1])" in src(defs["is_reachable"]) and "isinstance(section.blocks[-1], gtirb.CodeBlock)" in src(defs["is_reachable"]),
              tr, defs["is_reachable"] or tr.node, "is_reachable = code block with incoming edges", "changed")
    if len(drops) == 2:
        g1, g2 = drops[0][0], drops[1][0]
        ok1 = all(lt.under(g1, c) for c in ("is_empty", "not is_reachable", "not is_referenced", "not has_cfi_directives"))
        ok2 = all(lt.under(g2, c) for c in ("is_empty", "not is_reachable", "has_other_blocks", "not has_cfi_directives"))
        ctx.check(ok1, tr, drops[0][1], "case 1: empty, unreachable, unreferenced, no CFI -> dropped", f"guard {f_show(g1.guard)}")
        ctx.check(ok2, tr, drops[1][1], "case 2: empty, unreachable, no CFI, has a predecessor -> labels become end labels of it, then dropped", f"guard {f_show(g2.guard)}")
        rs = [(g, c) for g, c in lt.all_calls() if src(c.func) == "self._replace_symbol_referents"]
        ok = len(rs) == 1 and rs[0][0].index < g2.index and [src(a) for a in rs[0][1].args] == ["symbol_index", "section.blocks[-1]", "section.blocks[-2]"] and any(k.arg == "make_at_end" and src(k.value) == "True" for k in rs[0][1].keywords)
        ctx.check(ok, tr, rs[0][1] if rs else tr.node, "labels move to the previous block with at_end=True before the drop", "label move changed")


@rule("C12.5", ["C12"], "per-ISA registries agree (ABIs, indirect-call table, target triples, symbol-variant tables)", 8)
def c12_5(ctx: Ctx):
    repo = ctx.repo
    abis = repo.mod("abi").toplevel_assign("_ABIS")
    if not isinstance(abis, ast.Dict):
        raise AnalysisError("_ABIS is not a dict literal")
    abi_isas = {src(k.elts[0]).split(".")[-1] for k in abis.keys if isinstance(k, ast.Tuple)}
    ind = repo.mod("assembler._mc_utils").toplevel_assign("_INDIRECT_CALL_INSTRS")
    if not isinstance(ind, ast.Dict):
        raise AnalysisError("_INDIRECT_CALL_INSTRS is not a dict literal")
    ind_isas = {src(k).split(".")[-1] for k in ind.keys if k is not None}
    tt = repo.func("utils._target_triple")
    tri_isas = {src(n.comparators[0]).split(".")[-1] for n in ast.walk(tt.node) if isinstance(n, ast.Compare) and src(n.left) == "isa"}
    for isa in sorted(abi_isas):
        ctx.check(isa in ind_isas, repo.mod("assembler._mc_utils"), ind, f"ISA {isa}: indirect-call instruction table present",
                  f"{isa} has an ABI but no entry in _INDIRECT_CALL_INSTRS: every call would raise NotImplementedError / be treated as direct", key=f"C12.5::ind::{isa}")
        ctx.check(isa in tri_isas, tt, tt.node, f"ISA {isa}: target triple present", f"{isa} has an ABI but _target_triple does not know it", key=f"C12.5::tri::{isa}")
    for k, v in zip(ind.keys, ind.values):
        ctx.check(isinstance(v, ast.Set) and len(v.elts) >= 1 and all(isinstance(e, ast.Constant) and isinstance(e.value, str) for e in v.elts),
                  repo.mod("assembler._mc_utils"), v, f"{src(k).split('.')[-1]}: non-empty set of LLVM instruction names", "table entry malformed", key=f"C12.5::set::{src(k)}")
    p3 = repo.mod("gtirb_protobuf_compat.proto_3")
    p4 = repo.mod("gtirb_protobuf_compat.proto_4")
    k3 = {src(k) for k in p3.toplevel_assign("ELF_VARIANT_KINDS").keys}  # type: ignore
    k4 = {src(k) for k in p4.toplevel_assign("ELF_VARIANT_KINDS").keys}  # type: ignore
    ctx.check(k3 == k4 and len(k4) >= 10, p4, None, "proto_3 and proto_4 variant tables have the same keys", f"only in proto_3: {sorted(k3 - k4)}; only in proto_4: {sorted(k4 - k3)}")
    for m in (p3, p4):
        for name in ("PLT", "GOT", "LO12", "HI", "LO", "PCREL"):
            ctx.check(m.toplevel_assign(name) is not None, m, None, f"{m.name} exports {name}", "attribute alias missing", key=f"C12.5::{m.name}::{name}")
    ic = repo.func("assembler._mc_utils.is_indirect_call")
    t = src(ic.node)
    ctx.check("if not inst.desc.is_call:" in t and "return inst.name in _INDIRECT_CALL_INSTRS[isa]" in t, ic, ic.node, "is_indirect_call: calls only, by LLVM instruction name", "changed")


@rule("C12.6", ["C12", "C03"], "labels start a block at the current position; every _split_block site passes the right fallthrough decision", 8)
def c12_6(ctx: Ctx):
    repo = ctx.repo
    fi = repo.func(ST + "emit_label")
    lin = linear(fi.node)
    off = [g for g in lin.stmts if isinstance(g.node, ast.Assign) and src(g.node.targets[0]) == "label_block.offset"]
    ok = len(off) == 1 and linform(off[0].node.value) == {"self._state.current_block.offset": 1, "self._state.current_block.size": 1}
    ctx.check(ok, fi, off[0].node if off else fi.node, "label block starts at current.offset + current.size", "label block offset changed")
    add = [(g, c) for g, c in lin.all_calls() if src(c.func) == "self._state.cfg.add"]
    ok = len(add) == 1
    if ok:
        kws = _edge_kws(add[0][1])
        ok = kws.get("source") == "self._state.current_block" and kws.get("target") == "label_block" and "Fallthrough" in kws.get("label", "")
    ctx.check(ok, fi, add[0][1] if add else fi.node, "fallthrough edge from the current block into the label block", "label edge changed")
    app = [(g, c) for g, c in lin.all_calls() if src(c) == "self._state.current_section.blocks.append(label_block)"]
    ctx.check(len(app) == 1 and add and add[0][0].index < app[0][0].index, fi, fi.node, "the label block is appended after the edge was added from the old current block", "order changed")
    lb = single_assign_value(fi.node, "label_sym")
    ctx.check(lb is not None and src(lb) == "self._state.local_symbols[symbol.name]", fi, lb or fi.node, "the pre-created symbol of that label is used", "label symbol lookup changed")
    # _split_block
    sb = repo.func(ST + "_split_block")
    ls = linear(sb.node)
    nb = single_assign_value(sb.node, "next_block")
    ok = nb is not None and isinstance(nb, ast.Call) and src(nb.func) == "gtirb.CodeBlock" and any(k.arg == "offset" and linform(k.value) == {"self._state.current_block.offset": 1, "self._state.current_block.size": 1} for k in nb.keywords)
    ctx.check(ok, sb, nb or sb.node, "next block starts at the end of the current block", "next block offset changed")
    add = [(g, c) for g, c in ls.all_calls() if src(c.func) == "self._state.cfg.add"]
    ok = len(add) == 1 and ls.under(add[0][0], "add_fallthrough") and "Fallthrough" in src(add[0][1])
    ctx.check(ok, sb, add[0][1] if add else sb.node, "fallthrough edge iff requested", "changed")
    d = {a.arg: dv for a, dv in zip(sb.node.args.args[-len(sb.node.args.defaults):], sb.node.args.defaults)} if sb.node.args.defaults else {}
    ctx.check("add_fallthrough" in d and src(d["add_fallthrough"]) == "False", sb, sb.node, "default is no fallthrough", "default changed")
    # call sites table
    expected = {
        ST + "_emit_alignment": ["True"],
        ST + "_emit_value_with_encoding": [None, None],
    }
    for q, want in expected.items():
        f = repo.func(q)
        got = []
        for c in calls_in(f.node):
            if src(c.func) == "self._split_block":
                kw = [src(k.value) for k in c.keywords if k.arg == "add_fallthrough"]
                got.append(kw[0] if kw else (src(c.args[0]) if c.args else None))
        ctx.check(got == want, f, f.node, f"{q.split('.')[-1]}: _split_block fallthrough arguments {want}",
                  f"arguments are {got}: " + ("code on both sides of an .align keeps falling through" if "alignment" in q else "encoded data values sit in their own blocks without edges"))
    al = repo.func(ST + "_emit_alignment")
    la = linear(al.node)
    sp = [(g, c) for g, c in la.all_calls() if src(c.func) == "self._split_block"]
    ctx.check(len(sp) == 1 and la.under(sp[0][0], "self._state.current_block.size"), al, al.node, "alignment splits only a non-empty current block", "changed")
    from ..astx import single_assign_value as _sav

    def _exp(e: ast.AST) -> str:
        v = _sav(al.node, e.id) if isinstance(e, ast.Name) else None
        return src(v) if v is not None and not isinstance(v, ast.Call) else src(e)

    st = [g for g in la.stmts if isinstance(g.node, ast.Assign) and isinstance(g.node.targets[0], ast.Subscript)
          and _exp(g.node.targets[0].value) == "self._state.current_section.alignment" and _exp(g.node.targets[0].slice) == "self._state.current_block"]
    # the value is the directive's alignment, possibly combined with what the block already had (C10.12 decides that part)
    val_ok = len(st) == 1 and (src(st[0].node.value) == "alignment" or (isinstance(st[0].node.value, ast.Call) and src(st[0].node.value.func) == "max"
                                                                        and any(src(a) == "alignment" for a in st[0].node.value.args)))
    ctx.check(val_ok and st[0].top and sp and sp[0][0].index < st[0].index, al, al.node, "the alignment is recorded on the block that starts after the directive",
              "the directive's alignment is no longer recorded (unconditionally, after the split) on the current block")


@rule("C12.7", ["C12", "C04"], "attribute sets of an operand only ever grow (target modifier + symbol variant)", 3)
def c12_7(ctx: Ctx):
    fi = ctx.repo.func(ST + "_mcexpr_to_symbolic_operand")
    init = 0
    for n in walk_no_nested(fi.node):
        tgt, is_aug = None, False
        if isinstance(n, ast.Assign):
            tgt = n.targets[0]
        elif isinstance(n, ast.AnnAssign):
            tgt = n.target
        elif isinstance(n, ast.AugAssign):
            tgt, is_aug = n.target, True
        if tgt is None or src(tgt) != "attributes":
            continue
        if is_aug:
            ctx.check(isinstance(n.op, ast.BitOr), fi, n, f"`{src(n)}` merges", "attributes are combined with an operator other than |=")
        else:
            init += 1
            if init > 1:
                ctx.fail(fi, n, f"`{src(n)[:60]}`", "attributes are re-assigned after the target-specific modifier (:lo12:, %lo, :got: ...) was recorded: the modifier's attribute is lost")
            else:
                ctx.ok(fi, n, "attributes initialised once (empty set)")
    rets = [n for n in walk_no_nested(fi.node) if isinstance(n, ast.Return) and isinstance(n.value, ast.Call) and src(n.value.func) == "gtirb.SymAddrConst"]
    ok = len(rets) == 2 and all(src(r.value.args[2]) == "attributes" for r in rets) and {src(r.value.args[0]) for r in rets} == {"offset", "0"}
    ctx.check(ok, fi, fi.node, "both SymAddrConst results carry the accumulated attributes (addend `offset` / 0)", "SymAddrConst construction changed")
    off = single_assign_value(fi.node, "offset")
    ctx.check(off is not None and src(off) == "expr.rhs.value", fi, off or fi.node, "addend is the constant operand", "addend changed")
