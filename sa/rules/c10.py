"""C10 - split/join round trip, padding and alignment bookkeeping."""

from __future__ import annotations

import ast
from typing import Dict, List

from ..astx import (
    TRUE,
    calls_in,
    f_show,
    implies,
    linear,
    single_assign_value,
    src,
    walk_no_nested,
)
from ..core import AnalysisError, Ctx, rule
from ..region import Unknown, lin_show, linform, minieval


@rule("C10.1", ["C10", "C01"], "padding: whole nops after code (checked before bytes are appended), zeros otherwise, covered by a block", 8)
def c10_1(ctx: Ctx):
    repo = ctx.repo
    fi = repo.func("intervalutils.join_byte_intervals.insert_padding")
    lin = linear(fi.node)
    # remainder check raises before contents are extended
    app = [g for g in lin.stmts if isinstance(g.node, ast.AugAssign) and src(g.node.target) == "destination.contents"]
    ctx.check(len(app) == 1 and src(app[0].node.value).replace(" ", "") == "pad_bytes*size", fi, app[0].node if app else fi.node,
              "destination.contents += pad_bytes * size", "padding append changed")
    dm = [g for g in lin.stmts if isinstance(g.node, ast.Assign) and "divmod(size, len(pad_bytes))" in src(g.node.value)]
    ok = len(dm) == 1 and isinstance(dm[0].node.targets[0], ast.Tuple) and [src(e) for e in dm[0].node.targets[0].elts] == ["size", "remainder"]
    ctx.check(ok and lin.under(dm[0], "isinstance(last_block, gtirb.CodeBlock)"), fi, dm[0].node if dm else fi.node,
              "after code the pad length is converted to a whole number of nops (size, remainder = divmod(size, len(nop)))",
              "nop count computation changed: padding after code would not be whole instructions")
    rs = [g for g in lin.stmts if isinstance(g.node, ast.Raise) and "PaddingError" in src(g.node)]
    rem = [g for g in rs if lin.under(g, "remainder != 0")]
    ctx.check(len(rem) == 1 and app and rem[0].index < app[0].index, fi, rem[0].node if rem else fi.node,
              "a pad that is not a multiple of the nop raises PaddingError before any byte is appended",
              "the remainder check is missing or happens after the append (partial nop bytes would be written)")
    # zero bytes after data / no block
    pb = [g for g in lin.stmts if isinstance(g.node, ast.Assign) and src(g.node.targets[0]) == "pad_bytes"]
    for g in pb:
        v = src(g.node.value)
        if lin.under(g, "not isinstance(last_block, gtirb.CodeBlock)"):
            ctx.check(v in ("b'\\x00'", 'b"\\x00"'), fi, g.node, "after data (or no block) the pad byte is zero", f"pad byte is {v}")
        elif lin.under(g, "last_block.decode_mode in nop_encodings"):
            ctx.check(v == "nop_encodings[last_block.decode_mode]", fi, g.node, "nop for the block's decode mode", f"pad bytes {v}")
        elif lin.under(g, "last_module is not None"):
            ctx.check(v == "ABI.get(last_module).nop()", fi, g.node, "nop from the ABI of the last block's module", f"pad bytes {v}")
        else:
            ctx.fail(fi, g.node, "pad_bytes assignment", f"unrecognised padding source under {f_show(g.guard)}")
    ctx.check(len(pb) == 3, fi, fi.node, "three sources of pad bytes (decode-mode table, ABI nop, zero)", f"{len(pb)} found")
    early = [g for g in lin.stmts if isinstance(g.node, ast.Return) and lin.under(g, "size == 0")]
    ctx.check(len(early) == 1, fi, fi.node, "size 0 is a no-op", "early return for size 0 changed")
    # covering block
    pbs = single_assign_value(fi.node, "padding_block_size")
    blocks = [g for g in lin.stmts if isinstance(g.node, ast.Assign) and src(g.node.targets[0]) == "padding" and isinstance(g.node.value, ast.Call)]
    ok = len(blocks) == 2
    for g in blocks:
        c = g.node.value
        kws = {k.arg: src(k.value) for k in c.keywords}
        ok = ok and kws.get("offset") == "padding_block_offset" and kws.get("size") == "padding_block_size"
        if lin.under(g, "isinstance(last_block, gtirb.CodeBlock)"):
            ok = ok and src(c.func) == "gtirb.CodeBlock" and kws.get("decode_mode") == "last_block.decode_mode"
        else:
            ok = ok and src(c.func) == "gtirb.DataBlock"
        ok = ok and lin.under(g, "padding_block_size > 0")
    ctx.check(ok, fi, blocks[0].node if blocks else fi.node, "padding is covered by a new block of the last block's kind", "covering block construction changed")
    att = [g for g in lin.stmts if isinstance(g.node, ast.Assign) and src(g.node.targets[0]) == "padding.byte_interval" and src(g.node.value) == "destination"]
    ctx.check(len(att) == 1 and lin.under(att[0], "padding_block_size > 0"), fi, att[0].node if att else fi.node, "the covering block is attached to the destination", "covering block is not attached")
    offs = [g for g in lin.stmts if isinstance(g.node, ast.Assign) and src(g.node.targets[0]) == "padding_block_offset"]
    sizes = [g for g in lin.stmts if isinstance(g.node, ast.Assign) and src(g.node.targets[0]) == "padding_block_size"]
    ok = len(offs) == 2 and len(sizes) == 2
    for g in offs:
        if lin.under(g, "last_block is not None"):
            # where exactly the existing blocks end is C10.7's business (end of the last-starting block was defect F41)
            t = src(g.node.value)
            from .round4 import _running_max_of_block_ends
            ok = ok and ("max(" in t and ".offset + " in t and ".size" in t or linform(g.node.value) == {"last_block.offset": 1, "last_block.size": 1}
                         or (isinstance(g.node.value, ast.Name) and _running_max_of_block_ends(ctx.repo, "intervalutils.join_byte_intervals", g.node.value.id)))
        else:
            ok = ok and src(g.node.value) == "0"
    for g in sizes:
        if lin.under(g, "last_block is not None"):
            ok = ok and linform(g.node.value) == {"len(destination.contents)": 1, "padding_block_offset": -1}
        else:
            ok = ok and src(g.node.value) == "len(destination.contents)"
    ctx.check(ok, fi, fi.node, "the covering block spans from the end of the last block to the end of the contents", "covering block extent changed")
    ctx.check(all(g.index > app[0].index for g in sizes) if app else False, fi, fi.node, "the extent is measured after the bytes were appended", "extent measured before the append")


@rule("C10.2", ["C10", "C01"], "join_byte_intervals advances address, size and contents in lockstep", 7)
def c10_2(ctx: Ctx):
    fi = ctx.repo.func("intervalutils.join_byte_intervals")
    lin = linear(fi.node)
    # initial address = (destination.address or 0) + destination.size
    init = [g for g in lin.stmts if not g.loops and (
        (isinstance(g.node, ast.Assign) and src(g.node.targets[0]) == "address") or
        (isinstance(g.node, ast.AugAssign) and src(g.node.target) == "address"))]
    texts = [src(g.node) for g in init]
    ok = texts == ["address = 0", "address = destination.address", "address += destination.size"]
    ctx.check(ok, fi, init[0].node if init else fi.node, "address starts at (destination.address or 0) + destination.size",
              f"initial address computation is {texts}: padding would be computed from the wrong address "
              "(e.g. from initialized_size when the destination has an uninitialized tail)")
    if ok:
        ctx.check(lin.under(init[1], "destination.address is not None") and init[2].top, fi, init[1].node, "guards of the initial address", "guards changed")
    # per appended interval: the same increments for address and destination.size
    def incs(name):
        out = []
        for g in lin.stmts:
            if g.loops and isinstance(g.node, ast.AugAssign) and src(g.node.target) == name and isinstance(g.node.op, ast.Add):
                out.append((g, src(g.node.value)))
        return out

    a, s = incs("address"), incs("destination.size")
    ctx.check(sorted(v for _, v in a) == sorted(v for _, v in s) == ["interval.size", "size"], fi, fi.node,
              "address and destination.size are advanced by the same two amounts (alignment pad, interval size)",
              f"address += {[v for _, v in a]} but destination.size += {[v for _, v in s]}: the running address drifts from the real end of the destination, "
              "so every later aligned block is padded for the wrong address")
    for (ga, va) in a:
        match = [gs for gs, vs in s if vs == va and gs.guard == ga.guard and gs.loops == ga.loops]
        ctx.check(bool(match), fi, ga.node, f"address += {va} is paired with destination.size += {va}", "unpaired update")
    # the alignment pad
    sz = [g for g in lin.stmts if g.loops and isinstance(g.node, ast.Assign) and src(g.node.targets[0]) == "size"]
    ok = len(sz) == 1
    if ok:
        v = sz[0].node.value
        ok = (
            isinstance(v, ast.BinOp) and isinstance(v.op, ast.Sub)
            and isinstance(v.left, ast.Call) and src(v.left.func) == "align_address"
            and linform(v.left.args[0]) == {"address": 1, "offset": 1} and src(v.left.args[1]) == "boundary"
            and linform(v.right) == {"address": 1, "offset": 1}
        )
    ctx.check(ok, fi, sz[0].node if sz else fi.node, "pad = align_address(address + offset, boundary) - (address + offset)", "alignment pad formula changed")
    pads = [(g, c) for g, c in lin.all_calls() if src(c.func) == "insert_padding" and g.loops]
    texts = [src(c.args[0]) for _, c in pads]
    ctx.check(texts == ["destination.size - len(destination.contents)", "size"], fi, fi.node,
              "uninitialized tail is filled first, then the alignment pad is inserted", f"insert_padding calls: {texts}")
    if len(pads) == 2 and sz:
        ctx.check(pads[0][0].index < sz[0].index < pads[1][0].index, fi, pads[1][1], "order: fill, compute pad, insert pad", "order changed")
        aug = [g for g, v in a if v == "size"]
        ctx.check(bool(aug) and pads[1][0].index < aug[0].index, fi, pads[1][1], "address advances after the pad was inserted", "address advanced before padding")
    fin = [g for g in lin.stmts if isinstance(g.node, ast.Assign) and src(g.node.targets[0]) == "destination.initialized_size" and not g.loops]
    ctx.check(len(fin) == 1 and src(fin[0].node.value) == "len(destination.contents)", fi, fin[0].node if fin else fi.node,
              "destination ends fully initialized", "initialized_size update changed")
    # alignment node choice
    bd = single_assign_value(fi.node, "boundary")
    ctx.check(bd is not None and src(bd) == "module_alignment.get(node, 1)", fi, bd or fi.node, "boundary = module_alignment.get(node, 1)", "boundary lookup changed")
    nd = single_assign_value(fi.node, "node")
    ok = nd is not None and isinstance(nd, ast.Call) and src(nd.func) == "min" and "b in module_alignment" in src(nd) and "default=interval" in src(nd).replace(" ", "")
    ctx.check(ok, fi, nd or fi.node, "the first aligned block of the interval (else the interval) decides the boundary", "alignment node selection changed")


@rule("C10.3", ["C10"], "the alignment mapping used when joining is the live aux table", 2)
def c10_3(ctx: Ctx):
    fi = ctx.repo.func("prepare.prepare_for_rewriting")
    lin = linear(fi.node)
    ys = [g for g in lin.stmts if isinstance(g.node, ast.Expr) and isinstance(g.node.value, ast.Yield)]
    if len(ys) != 1:
        raise AnalysisError("prepare_for_rewriting: yield not found")
    y = ys[0]
    joins = [(g, c) for g, c in lin.all_calls() if src(c.func) == "join_byte_intervals"]
    if len(joins) != 1:
        raise AnalysisError("prepare_for_rewriting: join call not found")
    arg = joins[0][1].args[2] if len(joins[0][1].args) > 2 else None
    if arg is None or not isinstance(arg, ast.Name):
        ctx.fail(fi, joins[0][1], "alignment argument of join_byte_intervals", "no alignment mapping is passed")
        return
    name = arg.id
    binds = [g for g in lin.stmts if isinstance(g.node, ast.Assign) and src(g.node.targets[0]) == name]
    after = [g for g in binds if g.index > y.index and g.index < joins[0][0].index]
    exists = ast.parse("_auxdata.alignment.exists(module)", mode="eval").body
    # re-fetched exactly when the table exists: guard <=> exists(module) (a narrower guard keeps the
    # detached ELF placeholder `{}` when the rewrite created the table)
    live_after = [g for g in after if src(g.node.value) == "_auxdata.alignment.get_or_insert(module)" and lin.under(g, "_auxdata.alignment.exists(module)")
                  and implies(lin.cond_at(g, exists), g.guard)]
    detached_before = [g for g in binds if g.index < y.index and "get_or_insert" not in src(g.node.value)]
    ctx.check(bool(live_after) or not detached_before, fi, joins[0][1],
              "after the rewrite the alignment table is re-fetched when it exists",
              f"`{name}` may still be the detached value captured before the yield ({[src(g.node.value)[:40] for g in detached_before]}): "
              "alignment requirements recorded by patches (table created during the rewrite) are ignored at join time")
    before_live = [g for g in binds if g.index < y.index and src(g.node.value) == "_auxdata.alignment.get_or_insert(module)" and lin.under(g, "_auxdata.alignment.exists(module)")]
    ctx.check(bool(before_live), fi, fi.node, "an existing alignment table is used for the split", "existing table is no longer used before the yield")


@rule("C10.4", ["C10", "C01", "C04", "C02"], "overlap groups grow monotonically; split keeps the larger alignment on an empty head", 6)
def c10_4(ctx: Ctx):
    repo = ctx.repo
    fi = repo.func("intervalutils.split_byte_interval")
    lin = linear(fi.node)
    ends = [g for g in lin.stmts if isinstance(g.node, ast.Assign) and src(g.node.targets[0]) == "groups[-1].end"]
    if len(ends) != 1:
        raise AnalysisError("split_byte_interval: group end update not found")
    v = ends[0].node.value
    bad = []
    for old in (4, 8):
        for be in (3, 8, 9):
            try:
                got = minieval(v, {"groups[-1].end": old, "block_end": be})
            except Unknown as exc:
                raise AnalysisError(f"group end update not interpretable: {exc}")
            if got != max(old, be):
                bad.append((old, be, got))
    ctx.check(not bad, fi, ends[0].node, "group.end = max(group.end, block_end)",
              f"with (old end, block end) = {bad[0][:2] if bad else ''} the group end becomes {bad[0][2] if bad else ''}: a block nested inside a larger one "
              "shrinks the group, so a later block that still overlaps the large block is cut into its own interval")
    # grouping condition
    ifs = [g for g in lin.stmts if isinstance(g.node, ast.If) and "groups[-1].end" in src(g.node.test)]
    ok = len(ifs) == 1
    if ok:
        t = ifs[0].node.test
        bad = []
        for empty in (True, False):
            for gbeg, gend in ((2, 4), (4, 4)):   # a sized group and a group of zero-sized blocks only
                for bo in (3, 4, 5):
                    if bo < gbeg:
                        continue
                    env = {"groups == []": empty, "groups[-1].end": gend, "groups[-1].begin": gbeg, "block.offset": bo, "block.size": 1, "block_end": bo + 1,
                           "groups": [] if empty else [1]}
                    try:
                        got = bool(minieval(t, env))
                    except Unknown as exc:
                        raise AnalysisError(f"grouping condition not interpretable: {exc}")
                    want = empty or gend <= bo
                    if got != want:
                        bad.append((empty, gend, bo))
        ok = not bad
    ctx.check(ok, fi, ifs[0].node if ifs else fi.node, "a new group starts iff the block begins at or after the current group's end",
              "grouping condition changed (touching blocks share no bytes and must be separate groups; overlapping ones must not be)")
    srt = [c for c in calls_in(fi.node) if isinstance(c.func, ast.Name) and c.func.id == "sorted" and "interval.blocks" in src(c)]
    ctx.check(len(srt) == 1 and "b.offset" in src(srt[0]), fi, srt[0] if srt else fi.node, "blocks are grouped in offset order", "sort removed")
    # new interval extent
    ctor = [c for c in calls_in(fi.node) if src(c.func) == "gtirb.ByteInterval"]
    ok = len(ctor) == 1
    if ok:
        kws = {k.arg: src(k.value) for k in ctor[0].keywords}
        ok = kws.get("contents") == "interval.contents[group.begin:]" and kws.get("size", "").replace(" ", "") == "max(offset-group.begin,0)"
    ctx.check(ok, fi, ctor[0] if ctor else fi.node, "new interval = bytes from group.begin up to the previous cut", "new interval extent changed")
    for tgt, want in (("block.offset", ("Sub", "group.begin")),):
        aug = [n for n in walk_no_nested(fi.node) if isinstance(n, ast.AugAssign) and src(n.target) == tgt]
        ctx.check(len(aug) == 1 and type(aug[0].op).__name__ == want[0] and src(aug[0].value) == want[1], fi, aug[0] if aug else fi.node,
                  "blocks are re-based by group.begin", "block re-basing changed")
    addr = [n for n in walk_no_nested(fi.node) if isinstance(n, ast.Assign) and src(n.targets[0]) == "new_interval.address"]
    ctx.check(len(addr) == 1 and src(addr[0].value) == "group.blocks[0].address" and any(
        addr[0].lineno < a.lineno for a in walk_no_nested(fi.node) if isinstance(a, ast.AugAssign) and src(a.target) == "block.offset"), fi, addr[0] if addr else fi.node,
        "the new interval takes the address of its first block (read before blocks are re-based)", "address assignment changed")
    # join_blocks alignment merge
    fj = repo.func("_modify.join.join_blocks")
    lj = linear(fj.node)
    st = [g for g in lj.stmts if isinstance(g.node, ast.Assign) and src(g.node.targets[0]) == "alignment_data[block1]"]
    ok = len(st) == 1 and src(st[0].node.value) == "block2_align" and lj.under(st[0], "block2_align > block1_align")
    ctx.check(ok, fj, st[0].node if st else fj.node, "join: a larger alignment of block2 is stored on block1 (plain assignment)",
              "the larger alignment of block2 is not unconditionally stored on block1 (e.g. setdefault keeps a smaller existing entry): "
              "a patch starting with .align would lose its alignment")
    b2 = single_assign_value(fj.node, "block2_align")
    b1 = single_assign_value(fj.node, "block1_align")
    ctx.check(b2 is not None and src(b2) == "alignment_data.pop(block2, 1)" and b1 is not None and src(b1) == "alignment_data.get(block1, 1)", fj, b2 or fj.node,
              "block2's entry is popped, block1's read with default 1", "alignment reads changed")
