"""
Rules added after the second round of independently seeded changes (the ones
the first rule set missed). Each is a semantic obligation, not a fingerprint
of the seeded change: see DESIGN.md section 10 for the miss that motivated it.
"""

from __future__ import annotations

import ast
import itertools
from typing import Dict, List, Optional, Set, Tuple

from .. import aux
from ..astx import (
    calls_in,
    f_atoms,
    f_show,
    find_assign,
    implies,
    linear,
    single_assign_value,
    src,
    walk_no_nested,
)
from ..core import AnalysisError, Ctx, FuncInfo, Repo, rule
from ..effects import expand_definitions
from ..region import Unknown, minieval
from ..resolve import callgraph, resolve_call

# ----------------------------------------------------------------------------
# generic lints
# ----------------------------------------------------------------------------

ITER_CONSUMERS = {"list", "tuple", "set", "frozenset", "sorted", "all", "any", "sum", "min", "max", "dict", "enumerate", "zip", "map", "filter", "reversed", "iter", "next"}


def _iteration_sites(fi: FuncInfo, name: str) -> List[ast.AST]:
    """Places where the object bound to `name` is iterated (each consumes a one-shot iterator)."""
    out: List[ast.AST] = []
    for n in walk_no_nested(fi.node):
        if isinstance(n, (ast.For, ast.AsyncFor)) and isinstance(n.iter, ast.Name) and n.iter.id == name:
            out.append(n)
        if isinstance(n, (ast.ListComp, ast.SetComp, ast.DictComp, ast.GeneratorExp)):
            for g in n.generators:
                if isinstance(g.iter, ast.Name) and g.iter.id == name:
                    out.append(n)
        if isinstance(n, ast.Call) and isinstance(n.func, ast.Name) and n.func.id in ITER_CONSUMERS:
            for a in n.args:
                if isinstance(a, ast.Name) and a.id == name:
                    out.append(n)
        if isinstance(n, ast.Call) and isinstance(n.func, ast.Attribute) and n.func.attr in ("extend", "update", "add_detached_blocks", "insert_blocks_after", "_primitive_insert"):
            for a in n.args:
                if isinstance(a, ast.Name) and a.id == name:
                    out.append(n)
        if isinstance(n, ast.Starred) and isinstance(n.value, ast.Name) and n.value.id == name:
            out.append(n)
        # handed on to a package function/constructor that declares the matching parameter Iterable as well: it will be consumed there
        if isinstance(n, ast.Call) and n not in out and _hands_on_iterable(fi, n, name):
            out.append(n)
    return out


def _is_iterable_ann(ann: Optional[ast.expr]) -> bool:
    if ann is None:
        return False
    t = src(ann)
    t = t[len("Optional["):] if t.startswith("Optional[") else t
    return t.startswith(("Iterable[", "Iterator[", "typing.Iterable[", "typing.Iterator[", "Generator["))


def _hands_on_iterable(fi: FuncInfo, call: ast.Call, name: str) -> bool:
    from .. import core

    pos = [i for i, a in enumerate(call.args) if isinstance(a, ast.Name) and a.id == name]
    kws = [k.arg for k in call.keywords if k.arg and isinstance(k.value, ast.Name) and k.value.id == name]
    if not pos and not kws:
        return False
    repo = core.CURRENT_REPO
    if repo is None:
        return False
    try:
        targets = resolve_call(repo, fi, call)
    except Exception:
        return False
    for t in targets:
        fn = getattr(t, "node", None)
        if not isinstance(fn, (ast.FunctionDef, ast.AsyncFunctionDef)):
            continue
        params = list(fn.args.posonlyargs) + list(fn.args.args)
        if params and params[0].arg in ("self", "cls") and getattr(t, "cls", None) is not None:
            params = params[1:]
        for i in pos:
            if i < len(params) and _is_iterable_ann(params[i].annotation):
                return True
        for k in kws:
            for a in params + list(fn.args.kwonlyargs):
                if a.arg == k and _is_iterable_ann(a.annotation):
                    return True
    return False


@rule("GEN.iter", ["C17", "C20", "C09"], "a parameter typed Iterable/Iterator is iterated at most once (it may be a one-shot iterator)", 5)
def gen_iter(ctx: Ctx):
    repo = ctx.repo
    n = 0
    for q, fi in sorted(repo.funcs.items()):
        if q.startswith(("driver.", "assembler.__main__")):
            continue
        for a in fi.params:
            if a.annotation is None:
                continue
            t = src(a.annotation)
            if not (t.startswith(("Iterable[", "Iterator[")) or t.startswith(("typing.Iterable[", "typing.Iterator["))):
                continue
            n += 1
            # re-bound to a materialised collection first?
            rebinds = [x for x in find_assign(fi.node, a.arg) if isinstance(x.value, ast.Call) and src(x.value.func) in ("list", "tuple", "sorted", "set", "frozenset") ]
            sites = _iteration_sites(fi, a.arg)
            if rebinds:
                first = min(r.lineno for r in rebinds)
                sites = [s for s in sites if s.lineno < first or any(s is c for r in rebinds for c in ast.walk(r))]
                sites = [s for s in sites if not any(s is c for r in rebinds for c in ast.walk(r))] + ([rebinds[0]] if rebinds else [])
            # two sites on mutually exclusive paths are fine
            lin = linear(fi.node)
            multi = False
            for s1, s2 in itertools.combinations(sites, 2):
                try:
                    g1, g2 = lin.of(s1), lin.of(s2)
                except AnalysisError:
                    continue
                from ..astx import exclusive

                if not exclusive(g1.guard, g2.guard):
                    multi = True
            ctx.check(not multi, fi, fi.node, f"`{a.arg}: {t[:40]}` is consumed once",
                      f"`{a.arg}` is typed {t.split('[')[0]} but is iterated {len(sites)} times on one path (lines {[s.lineno for s in sites]}): "
                      "a generator argument is exhausted by the first pass, so the second sees nothing (arguments/blocks silently dropped)",
                      key=f"{q}::iter::{a.arg}")
    if n < 5:
        raise AnalysisError(f"only {n} Iterable-typed parameters found")


@rule("GEN.mutiter", ["C19", "C05"], "no collection is mutated while it is being iterated", 1)
def gen_mutiter(ctx: Ctx):
    repo = ctx.repo
    loops = 0
    for q, fi in sorted(repo.funcs.items()):
        for n in walk_no_nested(fi.node):
            if not isinstance(n, (ast.For, ast.AsyncFor)):
                continue
            it = n.iter
            # direct iteration only (tuple(x)/list(x)/set(x) snapshots are fine)
            if isinstance(it, ast.Call) and isinstance(it.func, ast.Attribute) and it.func.attr in ("items", "values", "keys"):
                base = src(it.func.value)
            elif isinstance(it, (ast.Name, ast.Attribute, ast.Subscript)):
                base = src(it)
            else:
                continue
            loops += 1
            for st in n.body:
                for c in ast.walk(st):
                    bad = None
                    if isinstance(c, ast.Call) and isinstance(c.func, ast.Attribute) and src(c.func.value) == base and c.func.attr in (
                        "remove", "pop", "discard", "add", "append", "insert", "clear", "popitem", "extend", "update", "setdefault"):
                        bad = src(c)
                    if isinstance(c, ast.Delete) and any(isinstance(t, ast.Subscript) and src(t.value) == base for t in c.targets):
                        bad = src(c)
                    if isinstance(c, ast.Assign) and any(isinstance(t, ast.Subscript) and src(t.value) == base for t in c.targets):
                        # assigning to an existing key of a dict during .items() iteration is allowed by Python
                        if not (isinstance(it, ast.Call) and it.func.attr in ("items", "keys", "values")):  # type: ignore
                            bad = src(c)
                    if bad:
                        ctx.fail(fi, c, f"`{bad[:60]}` inside `for ... in {src(it)[:40]}`",
                                 "the collection being iterated is modified in the loop body: elements are skipped (list) or RuntimeError is raised (dict/set)",
                                 key=f"{q}::mutiter::{base}")
    ctx.ok(repo.mod("_modify.delete_symbols"), None, f"{loops} direct for-loops scanned", nontrivial=False, key="GEN.mutiter::scan")


# ----------------------------------------------------------------------------
# C20 additions
# ----------------------------------------------------------------------------


@rule("C20.6", ["C20", "C09", "C05", "C02"], "linked-list unlink bridges each neighbour under exactly its own condition; reference trees are detached only after they were flattened", 4)
def c20_6(ctx: Ctx):
    repo = ctx.repo
    un = repo.func("_adt.linked_list.LinkedListNode.unlink")
    lin = linear(un.node)
    want = {"self.__prev.__next": ("self.__next", "self.__prev"), "self.__next.__prev": ("self.__prev", "self.__next")}
    for tgt, (val, cond) in want.items():
        st = [g for g in lin.stmts if isinstance(g.node, ast.Assign) and src(g.node.targets[0]) == tgt and src(g.node.value) == val]
        ok = len(st) == 1
        if ok:
            atoms = {a[0] for a in f_atoms(st[0].guard)}
            ok = atoms == {cond} and lin.under(st[0], cond)
        ctx.check(ok, un, st[0].node if st else un.node, f"{tgt} = {val} exactly when {cond} exists",
                  f"the bridge `{tgt} = {val}` runs under {f_show(st[0].guard) if st else 'never'}: when only one neighbour exists the other side keeps pointing at the removed node "
                  "(e.g. removing the last block leaves its predecessor's `next` stale)")
    gr = repo.func("_modify.cache.ReferenceCache.get_references")
    lg = linear(gr.node)
    flat = [g for g in lg.stmts if isinstance(g.node, ast.Expr) and isinstance(g.node.value, ast.YieldFrom) and "_make_direct_refs" in src(g.node.value)]
    removes = [g for g in lg.stmts if (isinstance(g.node, ast.Delete) and "self._references[" in src(g.node)) or any(src(c.func) == "self._references.pop" for c in lg.stmt_calls(g))]
    ok = len(flat) == 2 and len(removes) == 1 and all(f.index < removes[0].index for f in flat)
    ctx.check(ok, gr, removes[0].node if removes else gr.node, "get_references drops the block's trees only after both were flattened",
              "the block's reference trees leave `_references` before the (lazy) generator has converted all of them: a consumer that stops early "
              "(any(...), all(...)) strands the remaining symbols without referent")
    rr = repo.func("_modify.cache.ReferenceCache.retarget_references")
    t = " ".join(src(rr.node).split())
    ctx.check("if block in self._references: start_refs, end_refs = self._references.pop(block)" in t, rr, rr.node,
              "retarget_references takes over (pops) the source block's trees", "source trees are not detached from the block")
    lr = linear(rr.node)
    early = [g for g in lr.stmts if isinstance(g.node, ast.Return) and g.node.value is None]
    ok = False
    if early:
        for indirect in ("block in self._references", "self._has_indirect_references(block)"):
            want = lr.cond_at(early[0], ast.parse(f"not any(block.references) and not ({indirect})", mode="eval").body)
            ok = ok or (implies(early[0].guard, want) and implies(want, early[0].guard))
    ctx.check(ok, rr, early[0].node if early else rr.node,
              "nothing to do only when the block has neither direct nor indirect references", "early-return condition changed")


# ----------------------------------------------------------------------------
# C17 / C16
# ----------------------------------------------------------------------------


@rule("C17.8", ["C17"], "both back ends dispatch on the *resolved* argument value in every argument loop", 4)
def c17_8(ctx: Ctx):
    repo = ctx.repo
    for q in ("patches.calls._CallPatchARM64.get_asm", "patches.calls._CallPatchX86.get_asm"):
        fi = repo.func(q)
        lin = linear(fi.node)
        loops = [g.node for g in lin.stmts if isinstance(g.node, ast.For) and any(src(c.func) == "self._actual_value" for c in calls_in(g.node))]
        if not loops:
            raise AnalysisError(f"{q}: argument loops not found")
        for lp in loops:
            binds = [n for n in ast.walk(lp) if isinstance(n, ast.Assign) and isinstance(n.value, ast.Call) and src(n.value.func) == "self._actual_value"]
            ok = len(binds) == 1 and [src(a) for a in binds[0].value.args] == [src(lp.target) if not isinstance(lp.target, ast.Tuple) else src(lp.target.elts[-1]), "insertion_context"]
            ctx.check(ok, fi, lp, f"{q.split('.')[-2]}: value = self._actual_value(<loop arg>, insertion_context)", "argument resolution changed")
            if not binds:
                continue
            v = src(binds[0].targets[0])
            tests = [n for n in ast.walk(lp) if isinstance(n, ast.Call) and isinstance(n.func, ast.Name) and n.func.id == "isinstance" and src(n.args[1]) in ("gtirb.Symbol", "int")]
            bad = [src(t.args[0]) for t in tests if src(t.args[0]) != v]
            ctx.check(not bad and len(tests) >= 2, fi, lp, f"{q.split('.')[-2]}: Symbol/int dispatch tests `{v}`",
                      f"type dispatch looks at {bad or 'nothing'} instead of the resolved `{v}`: a callable argument that returns a Symbol (or int) matches neither branch and the "
                      "argument register/slot is never loaded")
            loads = [c for c in ast.walk(lp) if isinstance(c, ast.Call) and src(c.func) in ("self._load_symbol", "self._load_immediate")]
            badl = [src(c) for c in loads if src(c.args[-1]) != v]
            ctx.check(not badl, fi, lp, f"{q.split('.')[-2]}: loads use `{v}`", f"loads use another value: {badl}")


@rule("C16.7", ["C16"], "register tables: every register name denotes one register; leaf detection treats only Call edges as calls", 7)
def c16_7(ctx: Ctx):
    repo = ctx.repo
    for q in ("abi._X86_64.all_registers", "abi._IA32.all_registers", "abi._ARM64_ELF.all_registers", "abi._MIPS32_ELF.all_registers"):
        fi = repo.func(q)
        seen: Dict[str, int] = {}
        regs = 0
        for c in calls_in(fi.node):
            if src(c.func) == "Register" and c.args and isinstance(c.args[0], ast.Dict):
                regs += 1
                for v in c.args[0].values:
                    if isinstance(v, ast.Constant):
                        seen[v.value] = seen.get(v.value, 0) + 1
        dup = sorted(k for k, n in seen.items() if n > 1)
        ctx.check(not dup, fi, fi.node, f"{q.split('.')[1]}: sub-register names are unique across registers",
                  f"name(s) {dup} appear in more than one Register: get_register() resolves them to the wrong register (clobber saved for the wrong one, scratch names alias)")
        if "X86_64" in q:
            # r8..r15 family naming: r{n}b r{n}w r{n}d r{n}
            fam_bad = []
            for c in calls_in(fi.node):
                if src(c.func) == "Register" and c.args and isinstance(c.args[0], ast.Dict):
                    d = {k.value: v.value for k, v in zip(c.args[0].keys, c.args[0].values) if isinstance(k, ast.Constant) and isinstance(v, ast.Constant)}
                    full = d.get("64", "")
                    if full.startswith("r") and full[1:].isdigit():
                        want = {"8l": full + "b", "16": full + "w", "32": full + "d", "64": full}
                        if d != want:
                            fam_bad.append((full, d))
            ctx.check(not fam_bad, fi, fi.node, "x86-64: r8-r15 sub-register names follow r<n>b/w/d", f"inconsistent entries: {fam_bad}")
    lf = repo.func("rewriting.RewritingContext._might_be_leaf_function")
    gens = [n for n in ast.walk(lf.node) if isinstance(n, ast.GeneratorExp)]
    if len(gens) != 1:
        raise AnalysisError("_might_be_leaf_function: generator not found")
    elt = gens[0].elt
    rows = [(None, None, True), ("L", "Call", False), ("L", "Branch", True), ("L", "Fallthrough", True), ("L", "Return", True)]
    for label, typ, want in rows:
        env = {"edge.label": label, "edge.label.type": typ, "gtirb.Edge.Type.Call": "Call", "gtirb.EdgeType.Call": "Call"}
        try:
            got = bool(minieval(elt, env))
        except Unknown as exc:
            raise AnalysisError(f"_might_be_leaf_function predicate not interpretable: {exc}")
        ctx.check(got == want, lf, elt, f"edge (label={label}, type={typ}) counts as {'no call' if want else 'a call'}",
                  f"an edge with label={label}, type={typ} is treated as {'no call' if got else 'a call'}: "
                  + ("a call-free function with an unlabelled edge is recorded as non-leaf and patches push into its red zone" if want else "a calling function is recorded as leaf"),
                  key=f"C16.7::leaf::{label}{typ}")
    ctx.check(isinstance(gens[0].elt, ast.AST) and "all(" in src(lf.node), lf, lf.node, "leaf iff *all* edges are non-calls", "quantifier changed")
    ul = repo.func("rewriting.RewritingContext._update_leaf_functions")
    t = " ".join(src(ul.node).split())
    ctx.check("if func.uuid not in leaf_functions:" in t and "_auxdata.leaf_functions.get_or_insert(self._module)" in t, ul, ul.node,
              "leaf status is recorded once per function and persists across rewrites", "leaf table handling changed")


# ----------------------------------------------------------------------------
# edge predicates (C03 / C07)
# ----------------------------------------------------------------------------


@rule("C03.8", ["C03", "C07", "C16"], "edge-kind predicates: an unlabelled edge is neither fallthrough nor call nor return", 12)
def c03_8(ctx: Ctx):
    repo = ctx.repo
    for fn, kind in (("_is_fallthrough_edge", "Fallthrough"), ("_is_return_edge", "Return"), ("_is_call_edge", "Call")):
        fi = repo.func("utils." + fn)
        rets = [n for n in walk_no_nested(fi.node) if isinstance(n, ast.Return)]
        if len(rets) != 1:
            raise AnalysisError(f"{fn}: single return expected")
        for label, typ in ((None, None), ("L", "Fallthrough"), ("L", "Call"), ("L", "Return"), ("L", "Branch")):
            env = {"edge.label": label}
            if label is not None:
                env["edge.label.type"] = typ
            for k in ("Fallthrough", "Call", "Return", "Branch"):
                env[f"gtirb.Edge.Type.{k}"] = k
                env[f"gtirb.EdgeType.{k}"] = k
            try:
                got = bool(minieval(rets[0].value, env))
            except Unknown as exc:
                if label is None and "edge.label.type" in str(exc):
                    ctx.fail(fi, rets[0], f"{fn}(label=None)", "reads edge.label.type of an unlabelled edge (AttributeError): the None test no longer comes first", key=f"C03.8::{fn}::NoneNone")
                    continue
                raise AnalysisError(f"{fn} not interpretable: {exc}")
            want = label is not None and typ == kind
            ctx.check(got == want, fi, rets[0], f"{fn}(label={label}, type={typ}) == {want}",
                      f"{fn} answers {got} for an edge with label={label}, type={typ}: e.g. an unlabelled edge out of a block ending in jmp/ret would make the block look "
                      "terminator-free (EXIT insertions land after the jump)", key=f"C03.8::{fn}::{label}{typ}")
    bf = repo.func("utils._block_fallthrough_targets")
    t = " ".join(src(bf.node).split())
    ctx.check("for edge in block.outgoing_edges if _is_fallthrough_edge(edge) and isinstance(edge.target, gtirb.CodeBlock)" in t, bf, bf.node,
              "fallthrough targets = code-block targets of the block's fallthrough edges", "changed")


@rule("C07.9", ["C07", "C11"], "function name filters: MAIN/ENTRYPOINT/regex/literal semantics; blocks sorted after layout", 6)
def c07_9(ctx: Ctx):
    repo = ctx.repo
    pm = repo.func("scopes.pattern_match")
    lin = linear(pm.node)
    binds = [g for g in lin.stmts if isinstance(g.node, ast.Assign) and src(g.node.targets[0]) == "matches"]
    got = {}
    for g in binds:
        if lin.under(g, "fname == MAIN_NAME"):
            got["main"] = src(g.node.value)
        elif lin.under(g, "fname == ENTRYPOINT_NAME"):
            got["entry"] = src(g.node.value)
        elif lin.under(g, "isinstance(fname, Pattern)"):
            got["regex"] = src(g.node.value)
        else:
            got["literal"] = src(g.node.value)
    want = {
        "main": "func.get_name() == 'main'",
        "entry": "module.entry_point in func.get_entry_blocks()",
        "regex": "fname.fullmatch(func.get_name()) is not None",
        "literal": "func.get_name() == fname",
    }
    for k, w in want.items():
        ctx.check(got.get(k) == w, pm, pm.node, f"{k} filter: `{w}`",
                  f"{k} filter is `{got.get(k)}`" + (": the entry point designates the function whose *entry block* it is" if k == "entry" else ""), key=f"C07.9::{k}")
    ap = repo.func("rewriting.RewritingContext.apply")
    withs = [n for n in walk_no_nested(ap.node) if isinstance(n, ast.With) and any("prepare_for_rewriting" in src(i.context_expr) for i in n.items)]
    sb = [n for n in walk_no_nested(ap.node) if isinstance(n, ast.Assign) and src(n.targets[0]) == "sorted_blocks"]
    ok = len(withs) == 1 and len(sb) == 1 and any(sb[0] is x for st in withs[0].body for x in ast.walk(st))
    ctx.check(ok, ap, sb[0] if sb else ap.node, "blocks are sorted by address *inside* the prepared context (after layout assigned addresses)",
              "sorted_blocks is computed before prepare_for_rewriting ran: without addresses the stable sort keeps set order, so patch ids / label suffixes / callback order vary from run to run")
    if sb:
        kw = next((k.value for c in ast.walk(sb[0]) if isinstance(c, ast.Call) and src(c.func) == "sorted" for k in c.keywords if k.arg == "key"), None)
        first = (kw.body.elts[0] if isinstance(kw.body, ast.Tuple) else kw.body) if isinstance(kw, ast.Lambda) else None
        ctx.check(first is not None and src(first) == f"{kw.args.args[0].arg}.address or 0", ap, sb[0], "sorted by address first (ties: C02.7)", "the primary sort key is no longer the address")
    fi_ = [n for n in walk_no_nested(ap.node) if isinstance(n, ast.For) and "self._function_insertions" in src(n.iter)]
    ctx.check(len(fi_) == 2 and "_insert_function_stub" in src(fi_[0]) and "_apply_function_insertion" in src(fi_[1]), ap, ap.node,
              "all function stubs are created before any function body is assembled", "stub/body loops changed")


# ----------------------------------------------------------------------------
# C04 / C05 / C10
# ----------------------------------------------------------------------------


def _hook_triggering(repo: Repo) -> Dict[str, Set[str]]:
    """Functions whose call cone touches an offset-map wrapper (its table hook replaces table.data),
    with the wrapped tables they touch (attribute names of _auxdata_offsetmap; the tuple
    OFFSETMAP_AUX_DATA_TABLES stands for its members)."""
    cg = callgraph(repo)
    tup = repo.mod("_auxdata_offsetmap").toplevel_assign("OFFSETMAP_AUX_DATA_TABLES")
    if isinstance(tup, ast.Call) and len(tup.args) == 2:
        tup = tup.args[1]
    members = {src(e) for e in tup.elts} if isinstance(tup, (ast.Tuple, ast.List)) else {"comments", "padding", "symbolic_expression_sizes"}
    direct: Dict[str, Set[str]] = {}
    for q, fi in repo.funcs.items():
        for n in ast.walk(fi.node):
            if isinstance(n, ast.Name) and n.id == "OFFSETMAP_AUX_DATA_TABLES":
                direct.setdefault(q, set()).update(members)
            if isinstance(n, ast.Attribute) and isinstance(n.value, ast.Name) and n.value.id == "_auxdata_offsetmap":
                direct.setdefault(q, set()).add(n.attr)
    out: Dict[str, Set[str]] = {}
    for q in repo.funcs:
        t: Set[str] = set()
        for d in cg.cone([q]) & set(direct):
            t |= direct[d]
        if t:
            out[q] = t
    return out


@rule("C04.7", ["C04", "C05"], "a raw handle on an offset-keyed table is not held across calls that may re-wrap the table", 2)
def c04_7(ctx: Ctx):
    repo = ctx.repo
    wrapped = set(aux.offsetmap_wrappers(repo).values())
    hook = _hook_triggering(repo)
    cg = callgraph(repo)
    n = 0
    for q, fi in sorted(repo.funcs.items()):
        if not q.startswith(("_modify.", "rewriting.", "intervalutils.", "prepare.")):
            continue
        lin = None
        for u in aux.table_uses(repo, fi):
            if not u.bound or not (set(u.tables) & wrapped) or u.method not in ("get", "get_or_insert"):
                continue
            # raw accessor? (through _auxdata, not _auxdata_offsetmap)
            recv = src(u.call.func.value)  # type: ignore
            if "_auxdata_offsetmap" in recv or recv == "table_def" or recv in ("cfi_directives", "comments", "padding", "symbolic_expression_sizes") and "_auxdata_offsetmap" in fi.mod.source:
                continue
            if not recv.startswith("_auxdata.") and not recv.startswith("auxdata."):
                continue
            lin = lin or linear(fi.node)
            g_bind = lin.of(u.call)
            uses = [x for x in lin.stmts if x.index > g_bind.index and any(isinstance(nn, ast.Name) and nn.id == u.bound for nn in ast.walk(x.node))]
            if not uses:
                continue
            last = max(x.index for x in uses)
            between = []
            env = cg.env(q)
            for x in lin.stmts:
                if g_bind.index < x.index <= last:
                    for c in lin.stmt_calls(x):
                        for t in resolve_call(repo, fi, c, env):
                            # only a wrapper access to the *same* table re-wraps it
                            if isinstance(t, FuncInfo) and t.qual in hook and recv.split(".")[-1] in hook[t.qual]:
                                between.append((x, t.qual))
            n += 1
            ctx.check(not between, fi, u.call, f"`{u.bound} = {src(u.call)[:50]}` is used before any call that can re-wrap the table",
                      f"`{u.bound}` (the raw {aux.gt_name(repo, u.tables[0])} dict) is still used after {sorted({b[1] for b in between})[:2]} ran: those access the table through "
                      "its OffsetMapping wrapper, whose hook replaces table.data with a converted copy, so later writes through the old handle are lost",
                      key=f"{q}::rawhandle::{u.bound}")
    if n < 1:
        raise AnalysisError("no raw offset-table handle found (expected the symbolicExpressionSizes handle in insert())")


@rule("C04.8", ["C04"], "split_block always rewrites both halves of a displacement map (no stale copy on the head)", 4)
def c04_8(ctx: Ctx):
    fi = ctx.repo.func("_modify.split.split_block")
    lin = linear(fi.node)
    for table in ("table_data", "cfi_data"):
        for half in ("block", "new_block"):
            st = [g for g in lin.stmts if isinstance(g.node, ast.Assign) and src(g.node.targets[0]) == f"{table}[{half}]"]
            ok = len(st) >= 1
            if ok:
                atoms = {a[0] for a in f_atoms(st[0].guard) if not a[0].startswith("<")}
                allowed = {table, "displacement_map", "isinstance(block, gtirb.CodeBlock)"}
                ok = atoms <= allowed
            ctx.check(ok, fi, st[0].node if st else fi.node, f"{table}[{half}] is assigned whenever the block has entries",
                      f"the store `{table}[{half}] = ...` is {'missing' if not st else 'conditional on ' + f_show(st[0].guard)}: when that half would be empty the old map stays on the block "
                      "(entries duplicated, pointing past the shortened block)")


@rule("C05.8", ["C05", "C19"], "string-list aux tables only ever receive strings", 4)
def c05_8(ctx: Ctx):
    repo = ctx.repo
    defs = aux.table_defs(repo)
    str_lists = {v for v, t in defs.items() if t.py_type == "List[str]"}
    n = 0
    for q, fi in sorted(repo.funcs.items()):
        bound = {u.bound: u.tables[0] for u in aux.table_uses(repo, fi) if u.bound and set(u.tables) & str_lists}
        if not bound:
            continue
        ann = {a.arg: src(a.annotation) if a.annotation is not None else None for a in fi.params}
        for c in calls_in(fi.node):
            if isinstance(c.func, ast.Attribute) and isinstance(c.func.value, ast.Name) and c.func.value.id in bound and c.func.attr in ("append", "insert"):
                v = c.args[-1]
                n += 1
                ok = False
                if isinstance(v, ast.Constant) and isinstance(v.value, str):
                    ok = True
                elif isinstance(v, ast.JoinedStr):
                    ok = True
                elif isinstance(v, ast.Call) and src(v.func) == "str":
                    ok = True
                elif isinstance(v, ast.Name) and ann.get(v.id) == "str":
                    ok = True
                ctx.check(ok, fi, c, f"{aux.gt_name(repo, bound[c.func.value.id])}.{c.func.attr}({src(v)}) is a str",
                          f"`{src(v)}` ({'annotated ' + str(ann.get(v.id)) if isinstance(v, ast.Name) else 'expression'}) is stored in a sequence<string> table without str(): "
                          "e.g. a pathlib.Path makes the IR unserializable", key=f"{q}::strlist::{src(c)[:50]}")
    if n < 4:
        raise AnalysisError(f"only {n} writes to string-list tables found")


@rule("C10.5", ["C10", "C05"], "a block that is kept keeps its alignment; the last block seen survives block-less intervals", 3)
def c10_5(ctx: Ctx):
    repo = ctx.repo
    fi = repo.func("_modify.remove.remove_block")
    lin = linear(fi.node)
    ra = [(g, c) for g, c in lin.all_calls() if src(c.func) == "_remove_alignment"]
    ok = len(ra) == 1
    if ok:
        g = expand_definitions(repo, fi, ra[0][0].guard)
        ok = lin.under(ra[0][0], "can_remove")
    ctx.check(ok, fi, ra[0][1] if ra else fi.node, "the alignment entry is dropped only when the block really leaves (can_remove)",
              "the alignment entry is removed although the block may be kept as a zero-sized placeholder: the surviving jump target/label loses its alignment requirement")
    fj = repo.func("intervalutils.join_byte_intervals")
    upd = [n for n in walk_no_nested(fj.node) if isinstance(n, ast.Assign) and src(n.targets[0]) == "last_block" and isinstance(n.value, ast.Call) and src(n.value.func) == "max" and "interval.blocks" in src(n.value)]
    ok = len(upd) == 1 and any(k.arg == "default" and src(k.value) == "last_block" for k in upd[0].value.keywords)
    ctx.check(ok, fj, upd[0] if upd else fj.node, "an appended interval without blocks leaves `last_block` unchanged (default=last_block)",
              "after an interval without blocks the last block is forgotten: the next padding is zeros in a DataBlock starting at offset 0 (overlapping all earlier blocks) instead of nops after code")
    lm = [n for n in walk_no_nested(fj.node) if isinstance(n, ast.Assign) and src(n.targets[0]) == "last_module"]
    ctx.check(len(lm) == 2, fj, fj.node, "last_module follows last_block", "last_module bookkeeping changed")


@rule("C06.7", ["C06"], "proxy deletion never promotes a successor; ordinary deletion passes the real successor", 6)
def c06_7(ctx: Ctx):
    fi = ctx.repo.func("_modify.remove.remove_block")
    lin = linear(fi.node)
    for helper in ("_update_functions_aux_data", "_update_module_entrypoints", "_update_pe_safe_seh"):
        calls = [(g, c) for g, c in lin.all_calls() if src(c.func) == helper]
        for g, c in calls:
            last = src(c.args[-1])
            if lin.under(g, "retarget_to_proxy"):
                ctx.check(last == "None", fi, c, f"{helper}: proxy deletion passes no successor",
                          f"{helper} receives `{last}` on the retarget_to_proxy path: the successor is promoted (entry/DT_INIT/safe-SEH) although the deleted block's role went to a proxy",
                          key=f"C06.7::{helper}::proxy")
            elif lin.under(g, "not retarget_to_proxy"):
                ctx.check(last == "next_block", fi, c, f"{helper}: ordinary deletion passes next_block", f"{helper} receives `{last}`", key=f"C06.7::{helper}::next")
            else:
                ctx.fail(fi, c, f"{helper} call", f"call is not on a retarget_to_proxy / not retarget_to_proxy arm (guard {f_show(g.guard)})")
        ctx.check(len(calls) == 2, fi, fi.node, f"{helper} is called on both arms", f"{len(calls)} calls")


# ----------------------------------------------------------------------------
# assembler: C08 / C12 / C13
# ----------------------------------------------------------------------------


@rule("C12.8", ["C12", "C08", "C13", "C05", "C02"], "assembler bookkeeping: merged-block CFI is prepended, indexes are updated before they are cleared, state is re-created faithfully", 8)
def c12_8(ctx: Ctx):
    repo = ctx.repo
    A = "assembler.assembler.Assembler."
    rb = repo.func(A + "Result.CFIProcedure._replace_block")
    sl = [n for n in ast.walk(rb.node) if isinstance(n, ast.Assign) and isinstance(n.targets[0], ast.Subscript) and isinstance(n.targets[0].slice, ast.Slice)]
    ok = len(sl) == 1 and sl[0].targets[0].slice.lower is None and src(sl[0].targets[0].slice.upper or ast.Constant(None)) == "0" and src(sl[0].value) == "insts" and "setdefault(key, [])" in src(sl[0].targets[0].value)
    ctx.check(ok, rb, sl[0] if sl else rb.node, "directives of the (earlier, empty) old block are put *in front of* the new block's directives at the same displacement",
              "old-block directives are appended instead of prepended: `.L1: .cfi_remember_state / .L2: .cfi_def_cfa_offset` comes out in the wrong order")
    for fn, upd, var in (("_replace_cfi_referents", "index[new_block] |= proc_set", "proc_set"), ("_replace_symbol_referents", "index[new_block].update(sym_set)", "sym_set")):
        f = repo.func(A + fn)
        lin = linear(f.node)
        u = [g for g in lin.stmts if src(g.node) == upd]
        c = [g for g in lin.stmts if src(g.node) == f"{var}.clear()"]
        ctx.check(len(u) == 1 and len(c) == 1 and u[0].index < c[0].index, f, f.node, f"{fn}: the new block's index entry is filled before the old set is cleared",
                  f"`{var}.clear()` runs before `{upd}`: the index forgets what was merged into the new block (it is later converted to data or dropped although it carries CFI/labels)")
    fin = repo.func(A + "finalize")
    st = [c for c in calls_in(fin.node) if src(c.func) == "_State"]
    ok = len(st) == 1
    if ok:
        bad = [(k.arg, src(k.value)) for k in st[0].keywords if src(k.value) != f"self._state.{k.arg}"]
        pos = [src(a) for a in st[0].args]
        ok = not bad and pos == ["self._state.target"]
        ctx.check(ok, fin, st[0], "finalize(): every option of the fresh state is copied from the same-named field",
                  f"mismatched options {bad}: a reused Assembler silently changes behaviour after finalize() (e.g. undefined symbols allowed/refused)")
        need = {"diagnostic_callback", "temp_symbol_suffix", "trivially_unreachable", "allow_undef_symbols", "implicit_cfi_procedure", "ignore_symver_directives"}
        ctx.check({k.arg for k in st[0].keywords} == need, fin, st[0], "all six options are carried over", f"options carried over: {sorted(k.arg for k in st[0].keywords)}")
    asm = repo.func(A + "assemble")
    lin = linear(asm.node)
    passes = [(g, c) for g, c in lin.all_calls() if src(c.func) == "assembler.assemble"]
    ctx.check(len(passes) == 2 and all(g.top for g, _ in passes), asm, asm.node, "both assembler passes (label pre-creation, streaming) always run",
              "a pass is conditional: chunks that define symbols in a way the condition does not anticipate (.equ/.equiv) skip label pre-creation, so chunked assembly differs from assembling the whole text")
    p4 = repo.mod("gtirb_protobuf_compat.proto_4").toplevel_assign("ELF_VARIANT_KINDS")
    if not isinstance(p4, ast.Dict):
        raise AnalysisError("proto_4.ELF_VARIANT_KINDS is not a dict literal")
    attr_names = ["PLT", "GOT", "NTPOFF", "TPOFF", "DTPOFF", "TLSGD", "PCREL", "GOTOFF"]
    for k, v in zip(p4.keys, p4.values):
        kind = src(k).split(".")[-1]
        attrs = {src(e).split(".")[-1] for e in v.elts} if isinstance(v, ast.Set) else set()
        # decompose the kind name greedily into attribute names (longest first)
        rest, parts = kind, set()
        for a in sorted(attr_names, key=len, reverse=True):
            if a in rest:
                parts.add(a)
                rest = rest.replace(a, "", 1)
        if kind == "GOTPCREL":
            parts = {"GOT", "PCREL"}
        ctx.check(attrs == parts, repo.mod("gtirb_protobuf_compat.proto_4"), v, f"@{kind} -> {sorted(parts)}",
                  f"@{kind} maps to {sorted(attrs)}; its name (and the x86-64 TLS/PIC ABI) says {sorted(parts)}", key=f"C12.8::variant::{kind}")


@rule("C11.5", ["C11", "C07"], "the command-line driver runs passes in command-line order", 1)
def c11_5(ctx: Ctx):
    repo = ctx.repo
    fi = repo.funcs.get("driver._driver_core")
    if fi is None:
        raise AnalysisError("driver._driver_core vanished")
    from .c11 import _body_order_effects, _is_unordered, _strip_wrappers

    n = 0
    for lp in [x for x in walk_no_nested(fi.node) if isinstance(x, ast.For)]:
        if _is_unordered(fi, _strip_wrappers(lp.iter)):
            n += 1
            body = " ".join(src(s) for s in lp.body)
            order_dep = _body_order_effects(fi, lp) or ".add(" in body or "append(" in body
            ctx.check(not order_dep, fi, lp, f"loop over the set `{src(lp.iter)}` has no order-dependent effect",
                      f"passes (or other ordered state) are built while iterating the set `{src(lp.iter)}`: pass order follows string hashing (PYTHONHASHSEED), not the command line")
    ctx.ok(fi, fi.node, f"driver loops scanned ({n} over sets)", nontrivial=False, key="C11.5::scan")
