import importlib
import pkgutil


def load_all():
    for m in pkgutil.iter_modules(__path__):
        importlib.import_module(f"{__name__}.{m.name}")
