"""C06 - function tables keep describing the same code."""

from __future__ import annotations

import ast
import itertools
from typing import Dict, List, Set

from .. import aux
from ..astx import (
    TRUE,
    calls_in,
    f_atoms,
    f_show,
    implies,
    linear,
    single_assign_value,
    src,
    walk_no_nested,
)
from ..core import AnalysisError, Ctx, rule
from ..effects import predicate_formula
from ..region import Unknown, minieval
from ..resolve import callgraph

FB_WRITERS_ALLOWED = {
    "_modify.functions.add_function_block_aux",
    "_modify.functions.remove_function_block_aux",
    "rewriting.RewritingContext._insert_function_stub",
    "assembler._create_gtirb.create_gtirb",  # builds a fresh IR, no cache exists
}


def _table_bound_names(repo, fi, tables: Set[str]) -> Set[str]:
    names = set()
    for u in aux.table_uses(repo, fi):
        if u.bound and set(u.tables) & tables:
            names.add(u.bound)
    # one level of nesting: blocks = table.get(uuid) / table[uuid]
    changed = True
    while changed:
        changed = False
        for n in walk_no_nested(fi.node):
            if isinstance(n, ast.Assign) and len(n.targets) == 1 and isinstance(n.targets[0], ast.Name):
                v = n.value
                base = None
                if isinstance(v, ast.Call) and isinstance(v.func, ast.Attribute) and v.func.attr in ("get", "setdefault"):
                    base = v.func.value
                elif isinstance(v, ast.Subscript):
                    base = v.value
                if isinstance(base, ast.Name) and base.id in names and n.targets[0].id not in names:
                    names.add(n.targets[0].id)
                    changed = True
    return names


def _writes_through(fi, names: Set[str]) -> List[ast.AST]:
    out = []
    for n in walk_no_nested(fi.node):
        if isinstance(n, ast.Assign):
            for t in n.targets:
                b = t
                while isinstance(b, ast.Subscript):
                    b = b.value
                if isinstance(t, ast.Subscript) and isinstance(b, ast.Name) and b.id in names:
                    out.append(n)
        if isinstance(n, ast.Call) and isinstance(n.func, ast.Attribute) and n.func.attr in ("add", "discard", "pop", "remove", "update", "clear", "setdefault"):
            b = n.func.value
            while isinstance(b, ast.Subscript):
                b = b.value
            if isinstance(b, ast.Name) and b.id in names:
                out.append(n)
    return out


@rule("C06.1", ["C06", "C09"], "every writer of functionBlocks also updates cache.functions_by_block", 3)
def c06_1(ctx: Ctx):
    repo = ctx.repo
    writers = []
    for q, fi in sorted(repo.funcs.items()):
        names = _table_bound_names(repo, fi, {"function_blocks"})
        if not names:
            continue
        ws = _writes_through(fi, names)
        if ws:
            writers.append((fi, ws))
    for fi, ws in writers:
        if fi.qual not in FB_WRITERS_ALLOWED:
            ctx.fail(fi, ws[0], "writes functionBlocks", "functionBlocks is written outside the three functions that keep cache.functions_by_block in step")
            continue
        if fi.qual.startswith("assembler."):
            ctx.ok(fi, ws[0], "writes functionBlocks (fresh IR, no cache)", nontrivial=False)
            continue
        mirror = [
            n for n in walk_no_nested(fi.node)
            if (isinstance(n, ast.Assign) and any(isinstance(t, ast.Subscript) and src(t.value).endswith("functions_by_block") for t in n.targets))
            or (isinstance(n, ast.Call) and isinstance(n.func, ast.Attribute) and n.func.attr in ("pop", "__delitem__") and src(n.func.value).endswith("functions_by_block"))
        ]
        ctx.check(bool(mirror), fi, ws[0], "functionBlocks write is mirrored in functions_by_block",
                  "functionBlocks changes but cache.functions_by_block does not: in_same_function/is_entry_block answer from stale data")
    ctx.check(len([w for w in writers if not w[0].qual.startswith("assembler.")]) >= 3, repo.func("_modify.functions.add_function_block_aux"), None,
              "the three known writers were found", f"only {len(writers)} writers found")
    # add_function_block_aux: the mirror update is unconditional
    fa = repo.func("_modify.functions.add_function_block_aux")
    lin = linear(fa.node)
    m = [g for g in lin.stmts if isinstance(g.node, ast.Assign) and src(g.node.targets[0]) == "cache.functions_by_block[new_block]"]
    ctx.check(len(m) == 1 and m[0].top and src(m[0].node.value) == "func_uuid", fa, m[0].node if m else fa.node,
              "cache.functions_by_block[new_block] = func_uuid unconditionally", "mirror update is conditional or changed")
    add = [(g, c) for g, c in lin.all_calls() if src(c.func) == "function_blocks[func_uuid].add"]
    ctx.check(len(add) == 1 and src(add[0][1].args[0]) == "new_block", fa, add[0][1] if add else fa.node,
              "function_blocks[func_uuid].add(new_block)", "table update changed")


@rule("C06.2", ["C06"], "entry promotion only into the next code block of the same function; same-function test is exact", 12)
def c06_2(ctx: Ctx):
    repo = ctx.repo
    fi = repo.func("_modify.remove._update_functions_aux_data")
    lin = linear(fi.node)
    adds = [(g, c) for g, c in lin.all_calls() if isinstance(c.func, ast.Attribute) and c.func.attr == "add" and "aux_function_entries" in src(c.func.value)]
    if len(adds) != 1:
        raise AnalysisError("_update_functions_aux_data: promotion statement not found")
    g, c = adds[0]
    ctx.check(src(c.args[0]) == "next_block" and "[function_uuid]" in src(c.func.value), fi, c, "promotes next_block into the function's entries", f"promotion is `{src(c)}`")
    for need in ("isinstance(next_block, gtirb.CodeBlock)", "cache.in_same_function(block, next_block)", "block in aux_function_entries[function_uuid]"):
        ctx.check(lin.under(g, need), fi, c, f"promotion requires `{need}`",
                  f"promotion is not guarded by `{need}` (guard: {f_show(g.guard)})")
    rm = [(g2, c2) for g2, c2 in lin.all_calls() if src(c2.func) == "remove_function_block_aux"]
    ctx.check(len(rm) == 1 and g.index < rm[0][0].index, fi, rm[0][1] if rm else fi.node,
              "promotion happens before the block leaves the function tables", "remove_function_block_aux runs before the promotion test")
    # in_same_function: exact decision table over (uuid1, uuid2) in {None, A, B}
    fs = repo.func("_modify.cache.ModifyCache.in_same_function")
    rets = [n for n in walk_no_nested(fs.node) if isinstance(n, ast.Return)]
    if len(rets) != 1 or rets[0].value is None:
        raise AnalysisError("in_same_function: single return expected")
    binds: Dict[str, ast.expr] = {}
    for n in walk_no_nested(fs.node):
        if isinstance(n, ast.Assign) and isinstance(n.targets[0], ast.Name):
            binds[n.targets[0].id] = n.value

    def lookup(e: ast.expr, table: Dict[str, object], env):
        """dict.get semantics for self.functions_by_block.get(k[, d])."""
        if isinstance(e, ast.Call) and isinstance(e.func, ast.Attribute) and e.func.attr == "get" and src(e.func.value) == "self.functions_by_block":
            k = src(e.args[0])
            v = table.get(k)
            if v is None and len(e.args) > 1:
                return minieval(e.args[1], env)
            return v
        if isinstance(e, ast.Subscript) and src(e.value) == "self.functions_by_block":
            return table.get(src(e.slice))
        return minieval(e, env)

    for u1, u2 in itertools.product((None, "A", "B"), repeat=2):
        table = {"block1": u1, "block2": u2}
        env: Dict[str, object] = {}
        try:
            for name, e in binds.items():
                env[name] = lookup(e, table, env)
            got = bool(minieval(rets[0].value, env))
        except Unknown as exc:
            raise AnalysisError(f"in_same_function not interpretable: {exc}")
        want = u1 is not None and u1 == u2
        ctx.check(got == want, fs, rets[0], f"in_same_function row ({u1}, {u2})",
                  f"blocks in functions ({u1}, {u2}) are reported as same-function={got}, expected {want}: "
                  "a block outside any function must never count as belonging to a neighbour's function",
                  key=f"C06.2::same::{u1}{u2}")


@rule("C06.3", ["C06", "C03"], "are_joinable refuses joins across functions, into entry blocks, over labels/edges/alignment; join_blocks obeys it first", 8)
def c06_3(ctx: Ctx):
    repo = ctx.repo
    fi = repo.func("_modify.join.are_joinable")
    pf = predicate_formula(repo, fi)
    if pf is None:
        raise AnalysisError("are_joinable: not a boolean cascade")
    lin = linear(fi.node)
    refusals = {
        "different block kinds": "type(block1) is not type(block2)",
        "different byte intervals": "block1.byte_interval is not block2.byte_interval",
        "not adjacent": "block1.offset + block1.size != block2.offset",
    }
    for name, text in refusals.items():
        cond = lin.cond(ast.parse(text, mode="eval").body, {})
        ctx.check(_strip_implies(cond, pf, negate=True), fi, fi.node, f"refuses: {name}",
                  f"are_joinable can return true although `{text}`")
    # the refusals that only apply when block1 has content
    guarded = {
        "block2 carries a start label": "any_symbols",
        "blocks in different functions (code)": "isinstance(block1, gtirb.CodeBlock) and not cache.in_same_function(block1, block2)",
        "block2 is a function entry (code)": "isinstance(block1, gtirb.CodeBlock) and cache.is_entry_block(block2)",
    }
    pre = "block1.size and type(block1) is type(block2) and block1.byte_interval is block2.byte_interval and module and block1.offset + block1.size == block2.offset and "
    for name, text in guarded.items():
        cond = lin.cond(ast.parse(pre + "(" + text + ")", mode="eval").body, {})
        ctx.check(_strip_implies(cond, pf, negate=True), fi, fi.node, f"refuses (non-empty block1): {name}",
                  f"are_joinable can return true for a non-empty block1 although `{text}`")
    v = single_assign_value(fi.node, "any_symbols")
    ctx.check(v is not None and src(v).replace(" ", "") == "any((notsym.at_endforsymincache.reference_cache.get_references(block2)))".replace(" ", ""), fi, v or fi.node,
              "any_symbols = any start label of block2 (cache-aware enumeration)", f"any_symbols = {src(v) if v else '?'}")
    for var, extra in (("any_out_edges", "block2.size != 0"), ("any_in_edges", None)):
        text = pre + "isinstance(block1, gtirb.CodeBlock) and " + var + (" and " + extra if extra else "")
        cond = lin.cond(ast.parse(text, mode="eval").body, {})
        ctx.check(_strip_implies(cond, pf, negate=True), fi, fi.node, f"refuses (non-empty code block1): {var}",
                  f"are_joinable can return true although {var}: a terminator would be buried in the middle of the joined block")
    # edge refusals: look at the any_* bindings
    for var, must in (("any_out_edges", "block1.outgoing_edges"), ("any_in_edges", "block2.incoming_edges")):
        v = single_assign_value(fi.node, var)
        ctx.check(v is not None and must in src(v) and "_is_fallthrough_edge" in src(v), fi, v or fi.node,
                  f"{var} looks at {must} other than the connecting fallthrough", f"{var} = {src(v) if v else '?'}")
    # join_blocks consults it before mutating
    fj = repo.func("_modify.join.join_blocks")
    lj = linear(fj.node)
    raises = [g for g in lj.stmts if isinstance(g.node, ast.Raise) and "UnjoinableBlocksError" in src(g.node)]
    ok = len(raises) == 1 and lj.under(raises[0], "not joinable")
    ctx.check(ok, fj, raises[0].node if raises else fj.node, "join_blocks raises UnjoinableBlocksError when are_joinable says no", "refusal removed")
    jv = single_assign_value(fj.node, "joinable")
    ctx.check(jv is not None and src(jv) == "are_joinable(cache, block1, block2)", fj, jv or fj.node, "joinable = are_joinable(cache, block1, block2)", "joinable binding changed")
    if raises:
        first_mut = None
        for g in lj.stmts:
            if g.index <= raises[0].index:
                continue
            if isinstance(g.node, (ast.Expr, ast.Assign, ast.AugAssign, ast.Delete)) and not (isinstance(g.node, ast.Assign) and isinstance(g.node.targets[0], ast.Name)):
                first_mut = g
                break
        before = [
            g for g in lj.stmts
            if g.index < raises[0].index and isinstance(g.node, ast.Expr) and isinstance(g.node.value, ast.Call)
        ]
        ctx.check(not before, fj, raises[0].node, "no mutation precedes the joinability check", "a statement with effects precedes the check")


def _strip_implies(cond, pf, negate=False) -> bool:
    def strip(f):
        k = f[0]
        if k == "atom":
            a = f[1]
            return ("atom", (a[0], ()))
        if k in ("not", "and", "or"):
            return (k, *[strip(x) for x in f[1:]])
        return f

    from ..astx import f_not

    target = f_not(strip(pf)) if negate else strip(pf)
    return implies(strip(cond), target)


@rule("C06.4", ["C06"], "code blocks created inside a function's block join that function; data blocks never do", 4)
def c06_4(ctx: Ctx):
    repo = ctx.repo
    fi = repo.func("_modify.edit.insert")
    lin = linear(fi.node)
    adds = [(g, c) for g, c in lin.all_calls() if src(c.func) == "add_function_block_aux"]
    if len(adds) != 1:
        raise AnalysisError("insert(): add_function_block_aux call not found")
    g, c = adds[0]
    ctx.check([src(a) for a in c.args] == ["cache", "b", "func_uuid"], fi, c, "add_function_block_aux(cache, b, func_uuid)", f"arguments {[src(a) for a in c.args]}")
    ctx.check(lin.under(g, "isinstance(b, gtirb.CodeBlock)"), fi, c, "only patch *code* blocks are added to the function",
              "patch data blocks would be added to functionBlocks")
    ctx.check(lin.under(g, "isinstance(block, gtirb.CodeBlock)") and lin.under(g, "func_uuid"), fi, c,
              "only when the target is a code block that belongs to a function", f"guard is {f_show(g.guard)}")
    ctx.check(len(g.loops) == 1 and src(g.loops[0].iter) == "text_section.blocks", fi, c, "for every block of the patch's text section", "loop changed")
    fu = single_assign_value(fi.node, "func_uuid")
    ctx.check(fu is not None and src(fu) in ("cache.functions_by_block.get(block)", "cache.functions_by_block.get(block, None)"), fi, fu or fi.node,
              "func_uuid is the function of the *target* block", f"func_uuid = {src(fu) if fu else '?'}")
    # split_block
    fs = repo.func("_modify.split.split_block")
    ls = linear(fs.node)
    adds = [(g2, c2) for g2, c2 in ls.all_calls() if src(c2.func) == "add_function_block_aux"]
    ok = len(adds) == 1 and [src(a) for a in adds[0][1].args] == ["cache", "new_block", "func_uuid"] and ls.under(adds[0][0], "isinstance(block, gtirb.CodeBlock)") and ls.under(adds[0][0], "func_uuid")
    ctx.check(ok, fs, adds[0][1] if adds else fs.node, "split_block: the tail joins the head's function", "split_block no longer adds the tail to the function")
    fu = single_assign_value(fs.node, "func_uuid")
    ctx.check(fu is not None and src(fu) in ("cache.functions_by_block.get(block)", "cache.functions_by_block.get(block, None)"), fs, fu or fs.node,
              "split_block: func_uuid is the function of the head", f"func_uuid = {src(fu) if fu else '?'}")


@rule("C06.5", ["C06", "C09"], "a function that lost its last block disappears from exactly functionBlocks/functionEntries/functionNames", 6)
def c06_5(ctx: Ctx):
    repo = ctx.repo
    fi = repo.func("_modify.functions.remove_function_block_aux")
    lin = linear(fi.node)
    loops = [g for g in lin.stmts if isinstance(g.node, ast.For) and src(g.node.target) == "table_def"]
    if len(loops) != 2:
        raise AnalysisError(f"remove_function_block_aux: expected 2 table loops, found {len(loops)}")
    first, second = loops[0].node, loops[1].node
    t1 = set()
    for e in first.iter.elts if isinstance(first.iter, (ast.Tuple, ast.List)) else []:
        t = aux.table_of_expr(repo, fi.mod, e)
        if t:
            t1.update(t)
    t2 = set()
    for e in second.iter.elts if isinstance(second.iter, (ast.Tuple, ast.List)) else []:
        t = aux.table_of_expr(repo, fi.mod, e)
        if t:
            t2.update(t)
    ctx.check(t1 == {"function_entries", "function_blocks"}, fi, first, "block is discarded from functionEntries and functionBlocks", f"first loop tables: {sorted(t1)}")
    ctx.check(t2 == {"function_entries", "function_blocks", "function_names"}, fi, second, "an emptied function is popped from all three tables", f"second loop tables: {sorted(t2)}")
    ctx.check(not any(isinstance(n, (ast.Break, ast.Return)) for n in ast.walk(first)), fi, first,
              "the first loop visits both tables (no break/return)",
              "the loop can stop before functionBlocks is examined: blocks_left stays False and a function with live code is dropped from all tables")
    disc = [c for c in calls_in(first) if src(c) == "blocks.discard(block)"]
    ctx.check(len(disc) == 1, fi, first, "blocks.discard(block) in each table", "discard statement changed")
    bl = [n for n in ast.walk(first) if isinstance(n, ast.Assign) and src(n.targets[0]) == "blocks_left"]
    ctx.check(len(bl) == 1 and src(bl[0].value).replace(" ", "") in ("blocks_leftorbool(blocks)", "bool(blocks)orblocks_left"), fi, bl[0] if bl else first,
              "blocks_left accumulates over both tables", f"blocks_left update is `{src(bl[0].value) if bl else '?'}`")
    g2 = loops[1]
    ctx.check(lin.under(g2, "not blocks_left"), fi, second, "tables are popped only when no block is left", f"guard is {f_show(g2.guard)}")
    pops = [c for c in calls_in(second) if isinstance(c.func, ast.Attribute) and c.func.attr == "pop"]
    ctx.check(len(pops) == 1 and src(pops[0].args[0]) == "func_uuid", fi, second, "table.pop(func_uuid, None)", "pop changed")
    first_stmt = [g for g in lin.stmts if isinstance(g.node, ast.Assign) and src(g.node.targets[0]) == "func_uuid"]
    ctx.check(len(first_stmt) == 1 and src(first_stmt[0].node.value) == "cache.functions_by_block.pop(block, None)", fi, first_stmt[0].node if first_stmt else fi.node,
              "the cache mirror entry is popped", "functions_by_block is no longer popped")


@rule("C06.6", ["C06"], "_insert_function_stub registers the new function in all three tables with independent sets, plus cache and ordering", 7)
def c06_6(ctx: Ctx):
    repo = ctx.repo
    fi = repo.func("rewriting.RewritingContext._insert_function_stub")
    uses = aux.table_uses(repo, fi)
    bound = {u.bound: u.tables[0] for u in uses if u.bound and u.method == "get_or_insert"}
    stores = {}
    for n in walk_no_nested(fi.node):
        if isinstance(n, ast.Assign) and isinstance(n.targets[0], ast.Subscript) and isinstance(n.targets[0].value, ast.Name):
            nm = n.targets[0].value.id
            if nm in bound and src(n.targets[0].slice) == "func_uuid":
                stores[bound[nm]] = n
    for t, want in (("function_entries", "{block}"), ("function_blocks", "{block}"), ("function_names", "sym")):
        n = stores.get(t)
        ctx.check(n is not None and src(n.value) == want, fi, n or fi.node, f"{aux.gt_name(repo, t)}[func_uuid] = {want}",
                  f"{aux.gt_name(repo, t)} entry is `{src(n.value) if n else 'missing'}`")
    a, b = stores.get("function_entries"), stores.get("function_blocks")
    ctx.check(a is not None and b is not None and isinstance(a.value, ast.Set) and isinstance(b.value, ast.Set), fi, a or fi.node,
              "entries and blocks get two independent set objects",
              "functionEntries and functionBlocks share one set object: every block later added to the function also becomes an entry")
    m = [n for n in walk_no_nested(fi.node) if isinstance(n, ast.Assign) and src(n.targets[0]) == "modify_cache.functions_by_block[block]"]
    ctx.check(len(m) == 1 and src(m[0].value) == "func_uuid", fi, m[0] if m else fi.node, "cache mirror updated", "functions_by_block not updated")
    o = [c for c in calls_in(fi.node) if isinstance(c.func, ast.Attribute) and c.func.attr == "add_detached_blocks" and "block_ordering[sect]" in src(c.func.value)]
    ctx.check(len(o) == 1, fi, o[0] if o else fi.node, "block ordering knows the stub block", "block_ordering not updated")
    fu = single_assign_value(fi.node, "func_uuid")
    ctx.check(fu is not None and src(fu) == "uuid.uuid4()", fi, fu or fi.node, "fresh function UUID", "func_uuid source changed")
