"""
Generic (interpretive, ungated) lints written from the defects of round 6 - the
refactoring-sized commits whose mechanism rules can only answer "undecided".
Each one is silent on the correct twin of the commit that motivated it.
DESIGN.md section 10.8.
"""

from __future__ import annotations

import ast
from typing import Dict, List, Optional, Set

from ..astx import calls_in, src, walk_no_nested
from ..core import ALL_PROPS, AnalysisError, Ctx, rule

# ----------------------------------------------------------------------------
# clean-up of a context manager runs on failure too
# ----------------------------------------------------------------------------

_CTX_NO_CLEANUP = {
    "prepare.prepare_for_rewriting": "after a failed rewrite the module stays in its split-interval form, which is still a valid module; the re-join is not a clean-up",
    "rewriting.RewritingContext._log_patch_changes": "only logs the 'after' state",
}


def _is_ctxmanager(fn: ast.AST) -> bool:
    return any(src(d).endswith("contextmanager") for d in getattr(fn, "decorator_list", []))


def _mutating(st: ast.stmt) -> bool:
    """Does the statement do more than check (`if ...: raise`) or bind a local?"""
    if isinstance(st, ast.If):
        return any(_mutating(s) for s in st.body + st.orelse)
    if isinstance(st, (ast.Raise, ast.Assert, ast.Pass)):
        return False
    if isinstance(st, ast.Expr) and isinstance(st.value, ast.Constant):
        return False
    return True


@rule("GEN.ctxcleanup", ALL_PROPS, "what a context manager does after its `yield` to put things back also happens when the body raises (try/finally or an inner `with`)", 1, scoped=True)
def gen_ctxcleanup(ctx: Ctx):
    n = 0
    for q, fi in sorted(ctx.repo.funcs.items()):
        fn = fi.node
        if not _is_ctxmanager(fn):
            continue
        n += 1

        def scan(body: List[ast.stmt], protected: bool) -> Optional[ast.stmt]:
            """First mutating statement that follows a yield at this level without protection."""
            seen_yield = False
            for st in body:
                has_yield = any(isinstance(x, (ast.Yield, ast.YieldFrom)) for x in ast.walk(st))
                if isinstance(st, ast.Try) and has_yield:
                    # statements after the yield inside the try body are skipped on failure by design (checks);
                    # what must always run belongs in `finally`
                    bad = scan(st.body, protected or bool(st.finalbody))
                    if bad is not None and not st.finalbody:
                        return bad
                    seen_yield = True
                    continue
                if isinstance(st, (ast.With, ast.AsyncWith)) and has_yield:
                    inner = scan(st.body, True)   # the with-item's __exit__ runs on failure; code after the yield inside it does not
                    if inner is not None:
                        return inner
                    seen_yield = True
                    continue
                if isinstance(st, (ast.If, ast.For, ast.While)) and has_yield:
                    for sub in (st.body, st.orelse):
                        bad = scan(sub, protected)
                        if bad is not None:
                            return bad
                    seen_yield = True
                    continue
                if has_yield:
                    seen_yield = True
                    continue
                if seen_yield and _mutating(st):
                    return st
            return None

        bad = scan(fn.body, False)
        if bad is None:
            ctx.ok(fi, fn, f"{q}: nothing but checks follows the yield outside finally/with", key=f"{q}::ctxcleanup")
            continue
        why = _CTX_NO_CLEANUP.get(q)
        if why:
            ctx.ok(fi, bad, f"{q}: post-yield work is not a clean-up", why, key=f"{q}::ctxcleanup", nontrivial=False)
            continue
        ctx.fail(fi, bad, f"`{src(bad)[:60]}` runs only when the body of the `with` succeeds",
                 "the statement follows the `yield` without try/finally: when the managed block raises (a patch that fails to assemble) it is skipped, so whatever it was meant to "
                 "restore or flush - pending symbol referents, the caller's CFG object - stays in its intermediate state",
                 key=f"{q}::ctxcleanup")
    if n < 4:
        raise AnalysisError(f"only {n} context managers found")


# ----------------------------------------------------------------------------
# itertools.groupby needs its input grouped by the same key
# ----------------------------------------------------------------------------

_GROUPBY_OK = {
    ("assembler.assembler.Assembler._remove_empty_blocks", "section.blocks"): "the streamer appends blocks in increasing offset order",
}


def _key_body(k: Optional[ast.AST]) -> Optional[str]:
    if isinstance(k, ast.Lambda) and k.args.args:
        p = k.args.args[0].arg
        body = k.body.elts[0] if isinstance(k.body, ast.Tuple) and k.body.elts else k.body
        return src(body).replace(f"{p}.", "_.").replace(f"({p})", "(_)")
    return None


@rule("GEN.groupby", ALL_PROPS, "itertools.groupby is fed a sequence that is sorted (or known to be grouped) by the same key", 1, scoped=True)
def gen_groupby(ctx: Ctx):
    n = 0
    for q, fi in sorted(ctx.repo.funcs.items()):
        for c in calls_in(fi.node, nested=True):
            if src(c.func) not in ("itertools.groupby", "groupby", "more_itertools.groupby_transform") or not c.args:
                continue
            n += 1
            it = c.args[0]
            key = next((k.value for k in c.keywords if k.arg == "key"), c.args[1] if len(c.args) > 1 else None)
            want = _key_body(key)
            ok = False
            how = ""
            cand: List[ast.Call] = []
            if isinstance(it, ast.Call) and src(it.func) == "sorted":
                cand.append(it)
            if isinstance(it, ast.Name):
                for x in walk_no_nested(fi.node):
                    if isinstance(x, ast.Call) and isinstance(x.func, ast.Attribute) and x.func.attr == "sort" and src(x.func.value) == it.id and x.lineno <= c.lineno:
                        cand.append(x)
                    if isinstance(x, ast.Assign) and any(isinstance(t, ast.Name) and t.id == it.id for t in x.targets) and isinstance(x.value, ast.Call) and src(x.value.func) == "sorted":
                        cand.append(x.value)
            for s in cand:
                sk = _key_body(next((k.value for k in s.keywords if k.arg == "key"), None))
                if want is not None and sk == want:
                    ok, how = True, f"sorted by the same key `{want}`"
                if want is None and sk is None:
                    ok, how = True, "sorted and grouped by the elements themselves"
            exc = _GROUPBY_OK.get((q, src(it)))
            if not ok and exc:
                ctx.ok(fi, c, f"groupby over `{src(it)[:40]}`: reviewed", exc, key=f"{q}::groupby::{src(it)[:40]}", nontrivial=False)
                continue
            ctx.check(ok, fi, c, f"groupby(`{src(it)[:40]}`, key=`{want}`) gets its input {how or 'grouped'}",
                      f"`{src(it)[:50]}` is not sorted by `{want}` (groupby only merges *adjacent* equal keys): elements with the same key that are not neighbours come out as several "
                      "groups - e.g. a section whose blocks are interleaved with another section's in address order is seeded as separate chains",
                      key=f"{q}::groupby::{src(it)[:40]}")
    if n < 1:
        raise AnalysisError("no groupby call found")


# ----------------------------------------------------------------------------
# a parameter declared Iterable is consumed once
# ----------------------------------------------------------------------------


def _iter_uses(fn: ast.AST, name: str) -> List[ast.AST]:
    """Places where `name` is iterated: for/comprehension iterables and arguments of consuming calls."""
    out = []
    parents: Dict[int, ast.AST] = {}
    for n in ast.walk(fn):
        for c in ast.iter_child_nodes(n):
            parents[id(c)] = n
    for n in ast.walk(fn):
        if isinstance(n, ast.Name) and n.id == name and isinstance(n.ctx, ast.Load):
            p = parents.get(id(n))
            if isinstance(p, (ast.For, ast.AsyncFor)) and p.iter is n:
                out.append(p)
            elif isinstance(p, ast.comprehension) and p.iter is n:
                out.append(p)
            elif isinstance(p, ast.Call) and n in p.args and isinstance(p.func, ast.Name) and p.func.id in ("list", "tuple", "set", "sorted", "sum", "any", "all", "max", "min", "dict", "frozenset", "enumerate", "zip", "filter", "map", "iter"):
                out.append(p)
            elif isinstance(p, ast.Starred):
                out.append(p)
    return out


def _in_loop(fn: ast.AST, node: ast.AST) -> bool:
    for lp in ast.walk(fn):
        if isinstance(lp, (ast.For, ast.While)) and any(node is x for st in lp.body for x in ast.walk(st)):
            return True
        if isinstance(lp, (ast.ListComp, ast.SetComp, ast.DictComp, ast.GeneratorExp)) and len(lp.generators) > 1:
            for g in lp.generators[1:]:
                if g is node:
                    return True
    return False


@rule("GEN.iteronce", ALL_PROPS, "an argument declared Iterable/Iterator is iterated once (or materialised first)", 1, scoped=True)
def gen_iteronce(ctx: Ctx):
    n = 0
    for q, fi in sorted(ctx.repo.funcs.items()):
        fn = fi.node
        for a in fn.args.args + fn.args.kwonlyargs:
            if a.annotation is None:
                continue
            t = src(a.annotation)
            core_t = t[len("Optional["):] if t.startswith("Optional[") else t
            if not core_t.startswith(("Iterable[", "Iterator[", "typing.Iterable[", "Generator[")):
                continue
            n += 1
            # rebinding to a materialised form anywhere before the uses makes the parameter safe
            rebound = [x for x in ast.walk(fn) if isinstance(x, ast.Assign) and any(isinstance(tg, ast.Name) and tg.id == a.arg for tg in x.targets)
                       and isinstance(x.value, ast.Call) and isinstance(x.value.func, ast.Name) and x.value.func.id in ("list", "tuple", "set", "sorted", "frozenset", "dict")]
            uses = _iter_uses(fn, a.arg)
            if rebound:
                first = min(x.lineno for x in rebound)

                def line_of(u):
                    return getattr(u, "lineno", None) or getattr(getattr(u, "iter", None), "lineno", 0)

                uses = [u for u in uses if line_of(u) < first and not any(u is r.value for r in rebound)]
            looped = [u for u in uses if _in_loop(fn, u)]
            many = len(uses) > 1
            ok = not looped and not many
            ctx.check(ok, fi, (looped or uses or [fn])[0], f"`{a.arg}: {t[:40]}` is consumed once",
                      f"`{a.arg}` may be a one-shot iterator (a generator, `filter(...)`, `iter(...)`), but it is iterated "
                      f"{'inside a loop' if looped else str(len(uses)) + ' times'}: the second pass sees nothing, so whatever is done per element only happens for the first group/pass",
                      key=f"{q}::iteronce::{a.arg}")
    if n < 10:
        raise AnalysisError(f"only {n} Iterable-typed parameters found")


# ----------------------------------------------------------------------------
# a value unpacked from a call is not overwritten by the next unpacking before anyone looked at it
# ----------------------------------------------------------------------------


@rule("GEN.unpackclobber", ALL_PROPS, "two consecutive tuple-unpackings of call results do not bind the same name unless the first value was used", 1, scoped=True)
def gen_unpackclobber(ctx: Ctx):
    n = 0
    for q, fi in sorted(ctx.repo.funcs.items()):
        for node in walk_no_nested(fi.node):
            for fld in ("body", "orelse", "finalbody"):
                body = getattr(node, fld, None)
                if not isinstance(body, list):
                    continue
                for i, st in enumerate(body):
                    if not (isinstance(st, ast.Assign) and len(st.targets) == 1 and isinstance(st.targets[0], ast.Tuple) and isinstance(st.value, ast.Call)):
                        continue
                    names = [t.id for t in st.targets[0].elts if isinstance(t, ast.Name) and not t.id.startswith("_")]
                    if not names:
                        continue
                    n += 1
                    live: Set[str] = set(names)
                    follow: List[ast.stmt] = []
                    for st2 in body[i + 1:]:
                        # `if c: a, b, x = same_function(...)` directly behind the first unpacking counts too
                        if isinstance(st2, ast.If) and not st2.orelse and st2.body and isinstance(st2.body[0], ast.Assign) and isinstance(st2.body[0].value, ast.Call) \
                                and src(st2.body[0].value.func) == src(st.value.func) and not ({x.id for x in ast.walk(st2.test) if isinstance(x, ast.Name)} & live):
                            follow.append(st2.body[0])
                            break
                        follow.append(st2)
                    for st2 in follow:
                        reads = {x.id for x in ast.walk(st2) if isinstance(x, ast.Name) and isinstance(x.ctx, ast.Load)}
                        if isinstance(st2, ast.Assign) and len(st2.targets) == 1 and isinstance(st2.targets[0], ast.Tuple) and isinstance(st2.value, ast.Call):
                            again = [t.id for t in st2.targets[0].elts if isinstance(t, ast.Name) and t.id in live and t.id not in reads]
                            if again:
                                ctx.fail(fi, st2, f"`{again[0]}` from `{src(st.value)[:40]}` is overwritten by `{src(st2.value)[:40]}` unread",
                                         f"`{again[0]}` is bound by the unpacking at line {st.lineno} and bound again at line {st2.lineno} without having been read: the first call's "
                                         f"answer (e.g. 'did the first split add a fallthrough edge?') is silently replaced by the second's; use `_` for a component that is not needed",
                                         key=f"{q}::unpackclobber::{again[0]}")
                                break
                        live -= reads
                        if not live or isinstance(st2, (ast.If, ast.For, ast.While, ast.Try, ast.With, ast.Return, ast.Raise)):
                            break
    ctx.ok(ctx.repo.mod("_modify.edit"), None, f"{n} tuple-unpackings of call results followed up", nontrivial=False, key="GEN.unpackclobber::scan")
    if n < 20:
        raise AnalysisError(f"only {n} tuple-unpackings of call results found")


# ----------------------------------------------------------------------------
# a lazily filled attribute that depends on an argument is keyed by that argument
# ----------------------------------------------------------------------------


@rule("GEN.stalecache", ALL_PROPS, "a lazily initialised attribute whose value depends on a call argument is keyed by that argument", 1, scoped=True)
def gen_stalecache(ctx: Ctx):
    n = 0
    for q, fi in sorted(ctx.repo.funcs.items()):
        if fi.cls is None or fi.node.name == "__init__":
            continue
        params = {a.arg for a in fi.node.args.args + fi.node.args.kwonlyargs} - {"self", "cls"}
        for node in walk_no_nested(fi.node):
            if not isinstance(node, ast.If) or node.orelse:
                continue
            t = node.test
            slot = None
            if isinstance(t, ast.Compare) and len(t.ops) == 1 and isinstance(t.ops[0], ast.Is) and isinstance(t.comparators[0], ast.Constant) and t.comparators[0].value is None:
                slot = t.left
            elif isinstance(t, ast.Compare) and len(t.ops) == 1 and isinstance(t.ops[0], ast.Is) and isinstance(t.left, ast.Constant) and t.left.value is None:
                slot = t.comparators[0]
            elif isinstance(t, ast.UnaryOp) and isinstance(t.op, ast.Not):
                slot = t.operand
            if not (isinstance(slot, ast.Attribute) and isinstance(slot.value, ast.Name) and slot.value.id == "self"):
                continue
            fills = [s for s in node.body if isinstance(s, ast.Assign) and any(src(tg) == src(slot) for tg in s.targets)]
            if not fills:
                continue
            n += 1
            used = {x.id for x in ast.walk(fills[0].value) if isinstance(x, ast.Name)} & params
            ctx.check(not used, fi, node, f"`{src(slot)}` is filled once from argument-independent data",
                      f"`{src(slot)}` is created on first use from the argument `{sorted(used)[0] if used else ''}` and then reused for every later call, whatever it passes: when the object is "
                      "shared (a module-level encoder instance, an ABI singleton) the first caller's value - e.g. the pointer size of the first module evaluated - decides for all others",
                      key=f"{q}::stalecache::{src(slot)}")
    ctx.ok(ctx.repo.mod("abi"), None, f"{n} lazily filled attributes examined", nontrivial=False, key="GEN.stalecache::scan")


# ----------------------------------------------------------------------------
# objects built in __init__ from an attribute that another method replaces
# ----------------------------------------------------------------------------


@rule("GEN.stalecapture", ALL_PROPS, "when a method replaces `self.X`, everything __init__ built *from* `self.X` is rebuilt as well", 1, scoped=True)
def gen_stalecapture(ctx: Ctx):
    n = 0
    for cq, cls in sorted(ctx.repo.classes.items()):
        init = cls.methods.get("__init__")
        if init is None:
            continue
        # attributes assigned in __init__, in order; those whose value is a call that receives `self.X`
        derived: Dict[str, Set[str]] = {}
        for st in walk_no_nested(init.node):
            if isinstance(st, ast.Assign) and len(st.targets) == 1 and isinstance(st.targets[0], ast.Attribute) and src(st.targets[0].value) == "self":
                a = st.targets[0].attr
                for c in ast.walk(st.value):
                    if isinstance(c, ast.Call):
                        for arg in list(c.args) + [k.value for k in c.keywords]:
                            if isinstance(arg, ast.Attribute) and src(arg.value) == "self" and arg.attr != a:
                                derived.setdefault(arg.attr, set()).add(a)
        if not derived:
            continue
        for name, m in sorted(cls.methods.items()):
            if name == "__init__":
                continue
            assigned = {st.targets[0].attr: st for st in walk_no_nested(m.node)
                        if isinstance(st, ast.Assign) and len(st.targets) == 1 and isinstance(st.targets[0], ast.Attribute) and src(st.targets[0].value) == "self"}
            for x, st in assigned.items():
                if x not in derived:
                    continue
                n += 1
                stale = sorted(derived[x] - set(assigned))
                ctx.check(not stale, m, st, f"{cls.name}.{name} replaces `self.{x}` together with what was built from it",
                          f"`{src(st)[:60]}` installs a new `{x}`, but `self.{stale[0] if stale else ''}` was constructed in __init__ with the *old* one and is not rebuilt: it keeps writing into / "
                          "checking against the previous object - after finalize() a reused assembler extends the result it already returned and reports labels of the first use as duplicates",
                          key=f"{cq}.{name}::stalecapture::{x}")
    ctx.ok(ctx.repo.mod("assembler.assembler"), None, f"{n} attribute replacements with dependants examined", nontrivial=False, key="GEN.stalecapture::scan")


# ----------------------------------------------------------------------------
# the return value of an accessor that hands out an attribute is not mutated by the caller
# ----------------------------------------------------------------------------

_MUTATING_METHODS = {"append", "extend", "insert", "remove", "pop", "clear", "sort", "reverse", "add", "discard", "update", "setdefault", "popitem", "difference_update", "intersection_update"}


@rule("GEN.aliasmut", ALL_PROPS, "a container obtained from an accessor that returns an attribute itself (not a copy) is not mutated by the caller", 1, scoped=True)
def gen_aliasmut(ctx: Ctx):
    # accessors: package functions all of whose returns are `self.<attr>` (or a module-level name)
    handing_out: Dict[str, str] = {}
    for q, fi in ctx.repo.funcs.items():
        rets = [r for r in walk_no_nested(fi.node) if isinstance(r, ast.Return) and r.value is not None]
        if rets and all(isinstance(r.value, ast.Attribute) and src(r.value.value) == "self" for r in rets) and fi.cls is not None:
            ann = src(fi.node.returns) if fi.node.returns is not None else ""
            if ann.startswith(("List[", "Dict[", "Set[", "MutableMapping[", "list[", "dict[", "set[")):
                handing_out.setdefault(fi.node.name, q)
    n = 0
    for q, fi in sorted(ctx.repo.funcs.items()):
        for st in walk_no_nested(fi.node):
            if not (isinstance(st, ast.Assign) and len(st.targets) == 1 and isinstance(st.targets[0], ast.Name) and isinstance(st.value, ast.Call) and isinstance(st.value.func, ast.Attribute)):
                continue
            acc = st.value.func.attr
            if acc not in handing_out or src(st.value.func.value) != "self":
                continue
            n += 1
            v = st.targets[0].id
            muts = [c for c in calls_in(fi.node) if isinstance(c.func, ast.Attribute) and isinstance(c.func.value, ast.Name) and c.func.value.id == v and c.func.attr in _MUTATING_METHODS and c.lineno > st.lineno]
            rebound = [x for x in walk_no_nested(fi.node) if isinstance(x, ast.Assign) and any(isinstance(t, ast.Name) and t.id == v for t in x.targets) and x is not st]
            muts = [c for c in muts if not any(r.lineno < c.lineno for r in rebound)]
            ctx.check(not muts, fi, muts[0] if muts else st, f"`{v} = self.{acc}()` is only read",
                      f"`{handing_out[acc].split('.', 1)[-1]}` returns the object's own `{acc}` container, and `{src(muts[0])[:50] if muts else ''}` changes it in place: the change outlives this call - "
                      "registers taken out of the pool for one patch are missing for every later patch that uses the same ABI object",
                      key=f"{q}::aliasmut::{v}")
    ctx.ok(ctx.repo.mod("abi"), None, f"{len(handing_out)} attribute-returning accessors, {n} call results followed", nontrivial=False, key="GEN.aliasmut::scan")


# ----------------------------------------------------------------------------
# `return` where `continue` was meant: a loop over a fixed list of things to treat
# ----------------------------------------------------------------------------


@rule("GEN.returnloop", ALL_PROPS, "a loop over a literal list of things to process does not `return` on one of them", 1, scoped=True)
def gen_returnloop(ctx: Ctx):
    n = 0
    for q, fi in sorted(ctx.repo.funcs.items()):
        if fi.node.returns is not None and src(fi.node.returns) not in ("None", "'None'"):
            continue
        for lp in [x for x in walk_no_nested(fi.node) if isinstance(x, ast.For)]:
            if not (isinstance(lp.iter, (ast.Tuple, ast.List)) and len(lp.iter.elts) >= 2):
                continue
            n += 1
            rets = [r for st in lp.body for r in ast.walk(st) if isinstance(r, ast.Return) and r.value is None]
            ctx.check(not rets, fi, rets[0] if rets else lp, f"every element of `{src(lp.iter)[:50]}` is processed",
                      f"a bare `return` inside the loop over `{src(lp.iter)[:60]}` ends the whole function when one element needs no work (empty or missing table): the remaining "
                      "elements are never looked at - `continue` was meant", key=f"{q}::returnloop::{src(lp.iter)[:40]}")
    ctx.ok(ctx.repo.mod("_modify.delete_symbols"), None, f"{n} loops over literal sequences examined", nontrivial=False, key="GEN.returnloop::scan")


# ----------------------------------------------------------------------------
# pairing by index: range(len(s) // 2) goes with s[2*i], s[2*i+1]
# ----------------------------------------------------------------------------


@rule("GEN.pairstride", ALL_PROPS, "a loop that handles a sequence two elements at a time indexes it with stride two", 1, scoped=True)
def gen_pairstride(ctx: Ctx):
    n = 0
    for q, fi in sorted(ctx.repo.funcs.items()):
        for lp in [x for x in walk_no_nested(fi.node) if isinstance(x, ast.For)]:
            it = lp.iter
            if not (isinstance(it, ast.Call) and src(it.func) == "range" and len(it.args) == 1 and isinstance(lp.target, ast.Name)):
                continue
            a = it.args[0]
            if not (isinstance(a, ast.BinOp) and isinstance(a.op, ast.FloorDiv) and isinstance(a.right, ast.Constant) and a.right.value == 2
                    and isinstance(a.left, ast.Call) and src(a.left.func) == "len" and a.left.args):
                continue
            n += 1
            seq, i = src(a.left.args[0]), lp.target.id
            subs = [s for st in lp.body for s in ast.walk(st) if isinstance(s, ast.Subscript) and src(s.value) == seq]
            plain = [s for s in subs if src(s.slice) in (i, f"{i} + 1", f"1 + {i}")]
            ctx.check(not plain, fi, plain[0] if plain else lp, f"`for {i} in range(len({seq}) // 2)` reads `{seq}[2 * {i}]`, `{seq}[2 * {i} + 1]`",
                      f"`{src(plain[0]) if plain else ''}` uses the pair number as the element index: from the second pair on the pairs overlap (elements 1,2 then 2,3 ...) and the second half "
                      "of the sequence is never visited - registers in it are neither saved nor restored", key=f"{q}::pairstride::{seq}")
    ctx.ok(ctx.repo.mod("abi"), None, f"{n} half-length index loops examined", nontrivial=False, key="GEN.pairstride::scan")


@rule("C18.10", ["C18"], "an operand counts as control flow when its instruction is in any of capstone's three transfer groups (jump, call, relative branch)", 3)
def c18_10(ctx: Ctx):
    m = ctx.repo.mod("_modify.retarget")
    text = ast.unparse(m.tree)
    for g in ("CS_GRP_JUMP", "CS_GRP_CALL", "CS_GRP_BRANCH_RELATIVE"):
        ctx.check(g in text, m, None, f"retarget.py consults capstone's {g}",
                  f"{g} is not referenced anywhere in the module that classifies operands: instructions capstone tags only with that group (x86 `loop`/`loope`/`loopne`, MIPS `bal` for "
                  "BRANCH_RELATIVE) are treated as code references - the branch edge stays on the old referent and the wrong attribute rule is applied", key=f"retarget::{g}")


# ----------------------------------------------------------------------------
# strict deletion in a loop over a list that can name the same key twice
# ----------------------------------------------------------------------------


@rule("GEN.deldup", ALL_PROPS, "a strict deletion (`del d[k]`, `d.pop(k)`, `s.remove(x)`) is not driven by a list in which the same key can occur twice", 1, scoped=True)
def gen_deldup(ctx: Ctx):
    n = 0
    for q, fi in sorted(ctx.repo.funcs.items()):
        comps: Dict[str, ast.ListComp] = {}
        for st in walk_no_nested(fi.node):
            v = None
            if isinstance(st, ast.Assign) and len(st.targets) == 1 and isinstance(st.targets[0], ast.Name):
                v, val = st.targets[0].id, st.value
            elif isinstance(st, ast.AnnAssign) and isinstance(st.target, ast.Name) and st.value is not None:
                v, val = st.target.id, st.value
            if v and isinstance(val, ast.ListComp) and len(val.generators) >= 2 and isinstance(val.elt, ast.Tuple):
                comps[v] = val
        if not comps:
            continue
        for lp in [x for x in walk_no_nested(fi.node) if isinstance(x, ast.For) and isinstance(x.iter, ast.Name) and x.iter.id in comps and isinstance(x.target, ast.Tuple)]:
            comp = comps[lp.iter.id]
            if len(lp.target.elts) != len(comp.elt.elts):
                continue
            ignored = [i for i, t in enumerate(lp.target.elts) if isinstance(t, ast.Name) and t.id.startswith("_")]
            if not ignored:
                continue
            # does an ignored component carry the innermost generator's variable? then the kept components repeat
            inner = {t.id for t in ast.walk(comp.generators[-1].target) if isinstance(t, ast.Name)}
            kept_use_inner = any(inner & {x.id for x in ast.walk(comp.elt.elts[i]) if isinstance(x, ast.Name)} for i in range(len(comp.elt.elts)) if i not in ignored)
            ign_use_inner = any(inner & {x.id for x in ast.walk(comp.elt.elts[i]) if isinstance(x, ast.Name)} for i in ignored)
            if kept_use_inner or not ign_use_inner:
                continue
            n += 1
            strict = []
            for st in lp.body:
                for x in ast.walk(st):
                    if isinstance(x, ast.Delete) and any(isinstance(t, ast.Subscript) for t in x.targets):
                        strict.append(x)
                    if isinstance(x, ast.Call) and isinstance(x.func, ast.Attribute) and ((x.func.attr == "pop" and len(x.args) == 1 and not x.keywords) or x.func.attr == "remove"):
                        strict.append(x)
            ctx.check(not strict, fi, strict[0] if strict else lp, f"deletions driven by `{lp.iter.id}` tolerate a repeated key",
                      f"`{lp.iter.id}` holds one entry per `{', '.join(sorted(inner))}`, but the loop ignores that component and deletes by the others: when one item yields two entries "
                      f"(an expression that names two deleted symbols) `{src(strict[0])[:50] if strict else ''}` runs twice for the same key and the second raises KeyError half-way "
                      "through the rewrite; use `.pop(key, None)`/`discard`", key=f"{q}::deldup::{lp.iter.id}")
    ctx.ok(ctx.repo.mod("_modify.delete_symbols"), None, f"{n} deletion loops over multi-generator lists examined", nontrivial=False, key="GEN.deldup::scan")


# ----------------------------------------------------------------------------
# a memo of a function of an object is keyed by the object's identity, not by its name
# ----------------------------------------------------------------------------


@rule("GEN.memokey", ALL_PROPS, "a cache of something computed from an object is keyed by the object (or its uuid), not by its name", 1, scoped=True)
def gen_memokey(ctx: Ctx):
    from ..astx import find_assign

    n = 0
    for q, fi in sorted(ctx.repo.funcs.items()):
        for st in walk_no_nested(fi.node):
            if not (isinstance(st, ast.Assign) and len(st.targets) == 1 and isinstance(st.targets[0], ast.Subscript) and isinstance(st.targets[0].value, ast.Attribute)
                    and src(st.targets[0].value.value) == "self"):
                continue
            k, v = st.targets[0].slice, st.value

            def resolve(e):
                if isinstance(e, ast.Name):
                    a = [x for x in find_assign(fi.node, e.id) if x.value is not None and x.lineno <= st.lineno]
                    calls = [x.value for x in a if isinstance(x.value, (ast.Call, ast.Attribute))]
                    if calls:
                        return calls[-1]
                return e

            k, v = resolve(k), resolve(v)
            obj = None
            if isinstance(k, ast.Attribute) and isinstance(k.value, ast.Name) and k.attr in ("name", "label"):
                obj = k.value.id
            if isinstance(k, ast.Call) and isinstance(k.func, ast.Attribute) and isinstance(k.func.value, ast.Name) and k.func.attr in ("get_name", "name") and not k.args:
                obj = k.func.value.id
            if obj is None or not isinstance(v, ast.Call):
                continue
            n += 1
            takes_obj = any(isinstance(a, ast.Name) and a.id == obj for a in list(v.args) + [kw.value for kw in v.keywords])
            ctx.check(not takes_obj, fi, st, f"`{src(st.targets[0].value)}` is keyed by what its values depend on",
                      f"`{src(v)[:60]}` is computed from `{obj}` but remembered under `{src(k)}`: two objects with the same name (gtirb does not forbid it; one of them may hold the module "
                      "entry point) share the verdict of whichever was asked about first", key=f"{q}::memokey::{src(st.targets[0].value)}")
    ctx.ok(ctx.repo.mod("scopes"), None, f"{n} name-keyed memo stores examined", nontrivial=False, key="GEN.memokey::scan")


# ----------------------------------------------------------------------------
# positive fixtures: the lints above find nothing on today's tree, so each must prove on every run
# that it still recognises the construct it was written for
# ----------------------------------------------------------------------------

_FIXTURE = '''
import contextlib, itertools
from typing import Dict, Iterable, List

class Cache:
    def __init__(self, state):
        self._state = state
        self._streamer = Streamer(self._state)
        self._sized = None
        self._verdicts = {}
        self._pool = []

    def _pool_list(self) -> List[int]:
        return self._pool

    def take(self, r):
        pool = self._pool_list()
        pool.remove(r)

    def for_size(self, ptr_size):
        if self._sized is None:
            self._sized = Encoder(ptr_size)
        return self._sized

    def finalize(self):
        self._state = State()

    def matches(self, module, func):
        key = func.get_name()
        verdict = self._verdicts.get(key)
        if verdict is None:
            verdict = pattern_match(module, func)
            self._verdicts[key] = verdict
        return verdict


@contextlib.contextmanager
def manager(x):
    cache = make()
    yield cache
    cache.apply()


def group(blocks):
    blocks.sort(key=lambda b: (b.address, b.size))
    for sect, bs in itertools.groupby(blocks, key=lambda b: b.section):
        use(sect, bs)


def twice(tables: Iterable[int], groups):
    for g in groups:
        for t in tables:
            use(g, t)


def clobber(cache, block, offset, length):
    start, end, added = split_block(cache, block, offset)
    if length:
        mid, end, added = split_block(cache, end, length)
    return start, end, added


def scrub(module, symbols) -> None:
    for table in (first_table, second_table):
        entries = table.get(module)
        if not entries:
            return
        table.set(module, [e for e in entries if e not in symbols])


def pairs(saved, out):
    for i in range(len(saved) // 2):
        out.append((saved[i], saved[i + 1]))


def drop(module, symbols):
    uses = [(sym, bi, off) for bi in module.byte_intervals for off, expr in bi.symbolic_expressions.items() for sym in expr.symbols]
    for _, bi, off in uses:
        del bi.symbolic_expressions[off]
'''

_FIXTURE_EXPECT = {
    "GEN.ctxcleanup": "manager",
    "GEN.groupby": "group",
    "GEN.iteronce": "twice",
    "GEN.unpackclobber": "clobber",
    "GEN.stalecache": "for_size",
    "GEN.stalecapture": "finalize",
    "GEN.aliasmut": "take",
    "GEN.returnloop": "scrub",
    "GEN.pairstride": "pairs",
    "GEN.deldup": "drop",
    "GEN.memokey": "matches",
}


@rule("GEN.fixtures", ALL_PROPS, "every round-7 lint still recognises the construct it was written for (positive fixtures, evaluated on every run)", 11, scoped=True)
def gen_fixtures(ctx: Ctx):
    import tempfile
    from pathlib import Path

    from .. import core

    saved = core.CURRENT_REPO
    try:
        with tempfile.TemporaryDirectory(prefix="verif_fixture_") as tmp:
            pkg = Path(tmp) / "src" / core.PKG
            pkg.mkdir(parents=True)
            (pkg / "__init__.py").write_text("")
            (pkg / "fixture.py").write_text(_FIXTURE)
            os_env = __import__("os").environ
            old = os_env.get("VERIF_BUILDING_REFERENCE")
            os_env["VERIF_BUILDING_REFERENCE"] = "1"   # no reference-relative renaming/folding for the fixture
            try:
                mini = core.Repo(Path(tmp))
            finally:
                if old is None:
                    os_env.pop("VERIF_BUILDING_REFERENCE", None)
                else:
                    os_env["VERIF_BUILDING_REFERENCE"] = old
            for rid, where in sorted(_FIXTURE_EXPECT.items()):
                rdef = core.RULES[rid]
                sub = Ctx(mini, rdef, ctx.tier)
                try:
                    rdef.fn(sub)
                except AnalysisError:
                    pass   # instance floors are about the real package
                hits = [i for i in sub.instances if i.verdict == "violation" and where in i.key]
                if not hits:
                    raise AnalysisError(f"{rid} no longer reports its positive fixture (`{where}` in sa/rules/round7.py::_FIXTURE): the lint went blind")
                ctx.ok(ctx.repo.mod("rewriting"), None, f"{rid}: fixture `{where}` reported", key=f"fixture::{rid}", nontrivial=False)
    finally:
        core.CURRENT_REPO = saved
