"""C09 - rewrite caches are transparent."""

from __future__ import annotations

import ast
from typing import Dict, List, Optional, Set, Tuple

from ..astx import (
    TRUE,
    attr_path,
    calls_in,
    find_assign,
    linear,
    single_assign_value,
    src,
    walk_no_nested,
)
from ..core import AnalysisError, Ctx, FuncInfo, Repo, rule
from ..region import Unknown, minieval
from ..resolve import callgraph, resolve_call

# Functions that implement the cache itself.
CACHE_IMPL_PREFIX = "_modify.cache.ReferenceCache."

# Named exceptions for C09.1: (function, access) -> reason
C091_EXCEPTIONS = {
    ("rewriting.RewritingContext._insert_function_stub", "sym.referent"):
        "assertion on the symbol created by register_insert_function for a brand-new block; it is never retargeted before this point",
    ("rewriting.RewritingContext._apply_function_insertion", "sym.referent"):
        "same symbol as above, asserted before the function body is inserted",
}


def rewrite_scope(repo: Repo) -> Tuple[Set[str], FuncInfo, ast.With]:
    """Functions reachable from the body of the `with ... make_modify_cache(...)` in apply()."""
    ap = repo.func("rewriting.RewritingContext.apply")
    withs = [n for n in walk_no_nested(ap.node) if isinstance(n, ast.With) and any("make_modify_cache" in src(i.context_expr) for i in n.items)]
    if len(withs) != 1:
        raise AnalysisError("apply(): `with ... make_modify_cache(...)` not found")
    w = withs[0]
    cg = callgraph(repo)
    env = cg.env(ap.qual)
    roots: Set[str] = set()
    for st in w.body:
        for c in calls_in(st, nested=True):
            for t in resolve_call(repo, ap, c, env):
                if isinstance(t, FuncInfo):
                    roots.add(t.qual)
    cone = cg.cone(roots)
    # assembler callbacks are invoked by the external parser from Assembler.assemble
    if "assembler.assembler.Assembler.assemble" in cone:
        extra = [q for q in repo.funcs if q.startswith(("assembler.assembler._Streamer.", "assembler.assembler._SymbolCreator."))]
        cone |= cg.cone(extra)
    return cone, ap, w


def _classify_base(repo: Repo, fi: FuncInfo, base: ast.expr, cone: Set[str], depth: int = 0) -> Tuple[str, str]:
    """-> (class, why); class in fresh | sanitised | lookup | raw | unknown"""
    root = base
    while isinstance(root, (ast.Attribute, ast.Subscript)):
        root = root.value
    if not isinstance(root, ast.Name):
        return "unknown", f"base `{src(base)}`"
    name = root.id
    # loop variable?
    for n in ast.walk(fi.node):
        if isinstance(n, (ast.For, ast.comprehension)) and any(isinstance(x, ast.Name) and x.id == name for x in ast.walk(n.target)):
            it = src(n.iter)
            if "get_references(" in it:
                return "sanitised", f"yielded by reference_cache.get_references ({it})"
            if "code.symbols" in it or "local_symbols" in it or it == "sym_set" or ".symbols" in it and it.startswith(("code.", "result.", "sect.")):
                return "fresh", f"symbol created by the assembler for this patch ({it})"
            if ".references" in it or "module.symbols" in it or "symbols_named" in it:
                return "raw", f"iterates `{it}` (direct GTIRB references, not the cache)"
            if it in ("index[old_block]",):
                return "fresh", "assembler-local symbol index"
            return "unknown", f"loop over `{it}`"
    assigns = find_assign(fi.node, name)
    if assigns:
        classes = []
        for a in assigns:
            v = a.value
            t = src(v) if v is not None else ""
            if t.startswith("gtirb.Symbol("):
                classes.append(("fresh", "created here"))
            elif "local_symbols" in t:
                classes.append(("fresh", "assembler-local symbol table"))
            elif "index[" in t:
                classes.append(("fresh", "assembler-local symbol index"))
            elif any(k in t for k in ("_resolve_symbol", "_symbol_lookup", "_fixup_to_symbolic_operand", "_mcexpr_to_symbolic_operand")):
                classes.append(("lookup", f"obtained through the assembler's symbol lookup ({t[:50]})"))
            elif "get_referent(" in t or "get_references(" in t:
                classes.append(("sanitised", "made direct by the reference cache"))
            else:
                classes.append(("unknown", f"`{name} = {t[:50]}`"))
        order = ["raw", "unknown", "lookup", "sanitised", "fresh"]
        classes.sort(key=lambda c: order.index(c[0]))
        return classes[0]
    # parameter: look at call sites inside the scope
    params = [a.arg for a in fi.params]
    if name in params and depth < 2:
        cg = callgraph(repo)
        results = []
        for q in sorted(cone):
            caller = repo.funcs[q]
            if fi.qual not in cg.edges.get(q, ()):  # not a caller
                continue
            env = cg.env(q)
            for c in calls_in(caller.node, nested=True):
                ts = resolve_call(repo, caller, c, env)
                if fi not in ts:
                    continue
                from ..effects import param_mapping

                m = param_mapping(fi, c)
                if name in m:
                    results.append(_classify_base(repo, caller, m[name], cone, depth + 1))
        if results:
            order = ["raw", "unknown", "lookup", "sanitised", "fresh"]
            results.sort(key=lambda c: order.index(c[0]))
            return results[0]
        if fi.qual.startswith("assembler.assembler.Assembler._replace_symbol_referents"):
            return "fresh", "assembler-local"
    return "unknown", f"`{name}` has no visible provenance"


def sanitising_lookup_installed(repo: Repo) -> Tuple[bool, str]:
    """
    Every Assembler(...) constructed in the rewrite scope gets a target whose
    symbol_lookup makes each looked-up symbol's referent direct through the
    reference cache before the assembler sees it.
    """
    ip = repo.func("rewriting.RewritingContext._invoke_patch")
    ctors = [c for c in calls_in(ip.node) if isinstance(c.func, ast.Name) and c.func.id == "Assembler"]
    if len(ctors) != 1:
        return False, f"{len(ctors)} Assembler(...) constructions in _invoke_patch"
    first = ctors[0].args[0] if ctors[0].args else None
    if first is None or not isinstance(first, ast.Name):
        return False, f"Assembler is constructed on `{src(first) if first else '?'}` (the raw module): its symbol lookup is module.symbols_named"
    tname = first.id
    tv = single_assign_value(ip.node, tname)
    if tv is None or "ModuleTarget" not in src(tv):
        return False, f"assembler target `{tname}` is not an Assembler.ModuleTarget built here"
    lin = linear(ip.node)
    repl = [g for g in lin.stmts if isinstance(g.node, ast.Assign) and src(g.node.targets[0]) == f"{tname}.symbol_lookup"]
    if len(repl) != 1:
        return False, f"`{tname}.symbol_lookup` is not replaced by a sanitising wrapper"
    g = repl[0]
    if not lin.under(g, "modify_cache is not None"):
        return False, "the wrapper is not installed whenever a modify cache is in use"
    # nothing else may weaken the guard
    from ..astx import f_atoms

    extra = {a[0] for a in f_atoms(g.guard)} - {"modify_cache is None", "asm"}
    if extra:
        return False, f"wrapper installation depends on additional conditions {sorted(extra)}"
    fn_name = src(g.node.value)
    wrapper = repo.funcs.get(f"{ip.qual}.{fn_name}")
    if wrapper is None:
        return False, f"`{fn_name}` is not a local function"
    # shape: for sym in <orig>(name): <rc>.get_referent(sym); yield sym
    wl = linear(wrapper.node)
    loops = [x for x in wl.stmts if isinstance(x.node, ast.For)]
    if len(loops) != 1:
        return False, "wrapper is not a single loop over the original lookup"
    lp = loops[0].node
    sym = src(lp.target)
    gr = [(x, c) for x, c in wl.all_calls() if isinstance(c.func, ast.Attribute) and c.func.attr == "get_referent" and c.args and src(c.args[0]) == sym]
    ys = [x for x in wl.stmts if isinstance(x.node, ast.Expr) and isinstance(x.node.value, ast.Yield) and src(x.node.value.value) == sym]
    if len(gr) != 1 or len(ys) != 1:
        return False, "wrapper does not call get_referent(sym) and yield sym"
    if not (gr[0][0].index < ys[0].index and gr[0][0].guard == ys[0].guard):
        return False, "get_referent(sym) does not precede every `yield sym` unconditionally"
    rc_name = src(gr[0][1].func.value)
    rcv = single_assign_value(ip.node, rc_name)
    if not (rc_name.endswith("reference_cache") or (rcv is not None and src(rcv).endswith("reference_cache"))):
        return False, f"`{rc_name}` is not the modify cache's reference cache"
    # the wrapper must delegate to the module lookup
    it = lp.iter
    if not (isinstance(it, ast.Call) and len(it.args) == 1):
        return False, "wrapper does not delegate to the original lookup"
    orig = src(it.func)
    ov = single_assign_value(ip.node, orig)
    if ov is None or src(ov) != f"{tname}.symbol_lookup":
        return False, f"wrapper iterates `{orig}` which is not the target's original lookup"
    # the Assembler is created after the replacement
    if not (g.index < lin.of(ctors[0]).index):
        return False, "Assembler is constructed before the lookup is replaced"
    # all callers inside the scope pass the cache
    for q in ("rewriting.RewritingContext._apply_modifications", "rewriting.RewritingContext._apply_function_insertion"):
        fi = repo.func(q)
        cs = [c for c in calls_in(fi.node) if src(c.func) == "self._invoke_patch"]
        if not cs:
            return False, f"{q} no longer calls _invoke_patch"
        for c in cs:
            if not any(k.arg == "modify_cache" and src(k.value) == "modify_cache" for k in c.keywords):
                return False, f"{q} calls _invoke_patch without modify_cache=modify_cache: the assembler would read stale referents"
    return True, "wrapper verified"


@rule("C09.1", ["C09", "C13"], "no raw Symbol.referent/at_end access on module symbols while the reference cache is active", 10)
def c09_1(ctx: Ctx):
    repo = ctx.repo
    cone, ap, w = rewrite_scope(repo)
    ok_san, why_san = sanitising_lookup_installed(repo)
    n = 0
    for q in sorted(cone):
        fi = repo.funcs[q]
        if q.startswith(CACHE_IMPL_PREFIX):
            continue
        seen: Dict[str, int] = {}
        for node in ast.walk(fi.node):
            if not (isinstance(node, ast.Attribute) and node.attr in ("referent", "at_end")):
                continue
            # attribute of what? must plausibly be a symbol: skip `self.at_end`-like fields of RefNode etc.
            access = src(node)
            k = seen.get(access, 0)
            seen[access] = k + 1
            key = f"{q}::{access}#{k}::{type(node.ctx).__name__}"
            n += 1
            exc = C091_EXCEPTIONS.get((q, access))
            if exc:
                ctx.ok(fi, node, f"{access} ({type(node.ctx).__name__})", "exception: " + exc, key=key, nontrivial=False)
                continue
            cls, why = _classify_base(repo, fi, node.value, cone)
            if cls in ("fresh", "sanitised"):
                ctx.ok(fi, node, f"{access} ({type(node.ctx).__name__})", f"{cls}: {why}", key=key)
            elif cls == "lookup":
                ctx.check(ok_san, fi, node, f"{access} ({type(node.ctx).__name__})",
                          f"reads the referent of a module symbol found by name while the reference cache may hold it indirectly "
                          f"(Symbol.referent is None then): {why_san}", reason_ok=f"lookup-derived; {why_san}", key=key)
            else:
                ctx.fail(fi, node, f"{access} ({type(node.ctx).__name__})",
                         f"{cls}: {why}. Inside apply()'s cache context a symbol's referent/at_end must be read or written through "
                         "reference_cache.get_referent/get_references/set_referent", key=key)
    ctx.check(ok_san, repo.func("rewriting.RewritingContext._invoke_patch"), None,
              "the assembler's module lookup is wrapped by reference_cache.get_referent", why_san, key="C09.1::sanitiser")
    # positive fixture: the classifier must call block.references raw
    fx = ast.parse("def f(block):\n    for s in block.references:\n        s.referent = None\n")
    fxf = FuncInfo("fixture.f", "f", fx.body[0], repo.mod("_modify.split"))  # type: ignore
    acc = [x for x in ast.walk(fx) if isinstance(x, ast.Attribute) and x.attr == "referent"][0]
    if _classify_base(repo, fxf, acc.value, set())[0] != "raw":
        raise AnalysisError("C09.1 positive fixture was not classified raw")


@rule("C09.2", ["C09"], "every change of interval membership is mirrored in the block ordering in the same function", 4)
def c09_2(ctx: Ctx):
    repo = ctx.repo
    cone, _, _ = rewrite_scope(repo)
    for q in sorted(cone):
        fi = repo.funcs[q]
        if q.startswith(("intervalutils.", "prepare.", "assembler.")):
            continue
        changes: List[Tuple[ast.AST, str]] = []
        for n in walk_no_nested(fi.node):
            if isinstance(n, ast.Assign) and isinstance(n.targets[0], ast.Attribute) and n.targets[0].attr == "byte_interval":
                if not (isinstance(n.value, ast.Constant) and n.value.value is None):
                    changes.append((n, src(n.targets[0].value)))
            if isinstance(n, ast.Call) and isinstance(n.func, ast.Attribute) and n.func.attr in ("update", "add") and src(n.func.value).endswith(".blocks") and not src(n.func.value).startswith(("sect.", "text_section.", "result.")):
                changes.append((n, src(n.args[0]) if n.args else "?"))
            if isinstance(n, ast.Call) and src(n.func) == "gtirb.ByteInterval":
                for k in n.keywords:
                    if k.arg == "blocks":
                        changes.append((n, src(k.value)))
        if not changes:
            continue
        ords = [c for c in calls_in(fi.node) if isinstance(c.func, ast.Attribute) and c.func.attr in ("insert_blocks_after", "add_detached_blocks") and "block_ordering" in src(c.func.value)]
        for node, what in changes:
            w = what.strip("[]() ,")
            hit = [c for c in ords if w in src(c)]
            ctx.check(bool(hit), fi, node, f"blocks `{what}` enter an interval and the block ordering",
                      f"`{src(node)[:70]}` adds blocks to a byte interval but no block_ordering insert mentions `{w}`: "
                      "adjacent_blocks() would not know them (KeyError or stale neighbours)")


@rule("C09.3", ["C09", "C18"], "symbol retargeting/deletion (which read referents directly) run after the cache context has exited", 2)
def c09_3(ctx: Ctx):
    repo = ctx.repo
    cone, ap, w = rewrite_scope(repo)
    inside = {id(n) for st in w.body for n in ast.walk(st)}
    for name in ("retarget_symbol_uses", "delete_symbols"):
        cs = [c for c in calls_in(ap.node, nested=True) if isinstance(c.func, ast.Name) and c.func.id == name]
        ctx.check(len(cs) == 1 and id(cs[0]) not in inside and cs[0].lineno > w.end_lineno, ap, cs[0] if cs else ap.node,
                  f"{name}(...) is called after the `with` block",
                  f"{name} runs while the reference cache is active (or is no longer called): it reads Symbol.referent directly")
    for q in ("_modify.retarget.retarget_symbol_uses", "_modify.delete_symbols.delete_symbols"):
        ctx.check(q not in cone, repo.func(q), None, f"{q} is not reachable from inside the cache context", "reachable from inside the cache context")


@rule("C09.4", ["C09"], "_modify asks for neighbours only through cache.adjacent_blocks", 2)
def c09_4(ctx: Ctx):
    repo = ctx.repo
    n = 0
    for q, fi in sorted(repo.funcs.items()):
        if not q.startswith("_modify.") or q.startswith(("_modify.cache.", "_modify.retarget.")):
            continue
        for c in calls_in(fi.node, nested=True):
            t = src(c.func)
            if t.endswith((".byte_blocks_at", ".byte_blocks_on", ".code_blocks_at", ".code_blocks_on")):
                ctx.fail(fi, c, f"`{t}`", "neighbouring blocks are looked up by address in mid-rewrite: addresses are stale until layout runs again")
            if t.endswith("adjacent_blocks"):
                n += 1
                ctx.check(t == "cache.adjacent_blocks", fi, c, "cache.adjacent_blocks(...)", f"adjacency asked through `{t}`")
    if n < 2:
        raise AnalysisError(f"only {n} adjacent_blocks call sites found in _modify")


@rule("C09.5", ["C09", "C03", "C11", "C02", "C06"], "the initial block ordering puts a zero-sized block before the non-empty block at the same address", 4)
def c09_5(ctx: Ctx):
    fi = ctx.repo.func("_modify.cache.ModifyCache.__init__")
    sorts = [c for c in calls_in(fi.node) if isinstance(c.func, ast.Name) and c.func.id == "sorted"]
    if len(sorts) != 1:
        raise AnalysisError("ModifyCache.__init__: sorted(...) not found")
    key = None
    for k in sorts[0].keywords:
        if k.arg == "key":
            key = k.value
    if not isinstance(key, ast.Lambda):
        raise AnalysisError("ModifyCache.__init__: sort key is not a lambda")
    b = key.args.args[0].arg
    body = key.body

    def ev(addr, size):
        env = {f"{b}.address": addr, f"cast(int, {b}.address)": addr, f"{b}.size": size}
        try:
            return minieval(body, env)
        except Unknown as exc:
            raise AnalysisError(f"sort key not interpretable: {exc}")

    rows = [
        ((100, 0), (100, 4), "zero-sized block before the non-empty block at the same address"),
        ((100, 4), (104, 0), "lower address first"),
        ((100, 0), (104, 0), "lower address first (both empty)"),
        ((100, 8), (104, 2), "lower address first (overlap)"),
    ]
    for a, c, why in rows:
        ka, kc = ev(*a), ev(*c)
        ctx.check(ka < kc, fi, key, f"key{a} < key{c}",
                  f"sort key orders (address,size)={a} as {ka} and {c} as {kc}: {why}. A zero-sized label block ordered after its "
                  "successor makes `next block` point backwards (edges and labels are retargeted to the empty block)",
                  key=f"C09.5::{a}{c}")
    ctx.check(sorts[0].keywords and not any(k.arg == "reverse" for k in sorts[0].keywords), fi, sorts[0], "ascending", "reverse sort")
