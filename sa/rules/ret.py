"""
RET - block retirement protocol (shared by C02 C03 C05 C06 C08 C09 C10).

A *retirement site* is a statement `X.byte_interval = None` in the _modify
package: block X leaves the module there. On every path from function entry
to that statement every obligation below must already have been discharged
for X, directly or through helpers that receive X. A *shrink site* is
`X.size = 0` in remove_block (the block is kept as an empty placeholder):
the obligations about X's bytes (offset-keyed aux data, outgoing edges) apply
there too.
"""

from __future__ import annotations

import ast
from typing import List, Optional, Tuple

from .. import aux
from ..astx import (
    FALSE,
    TRUE,
    GStmt,
    attr_path,
    calls_in,
    f_show,
    implies,
    linear,
    src,
    walk_no_nested,
)
from ..core import AnalysisError, Ctx, FuncInfo, Repo, rule
from ..effects import (
    CODE_KINDS,
    DATA_KINDS,
    call_matcher,
    expand_definitions,
    must_effect,
    site_guard,
)


def retirement_sites(repo: Repo) -> List[Tuple[FuncInfo, GStmt, str]]:
    out = []
    for q, fi in repo.funcs.items():
        if not q.startswith("_modify."):
            continue
        lin = None
        for n in walk_no_nested(fi.node):
            if (
                isinstance(n, ast.Assign)
                and len(n.targets) == 1
                and isinstance(n.targets[0], ast.Attribute)
                and n.targets[0].attr == "byte_interval"
                and isinstance(n.targets[0].value, ast.Name)
                and isinstance(n.value, ast.Constant)
                and n.value.value is None
            ):
                lin = lin or linear(fi.node)
                out.append((fi, lin.of(n), n.targets[0].value.id))
    return out


def shrink_sites(repo: Repo) -> List[Tuple[FuncInfo, GStmt, str]]:
    """`X.size = 0` where X is a parameter of a _modify.remove function."""
    out = []
    for q, fi in repo.funcs.items():
        if not q.startswith("_modify.remove."):
            continue
        params = {a.arg for a in fi.params}
        for n in walk_no_nested(fi.node):
            if (
                isinstance(n, ast.Assign)
                and len(n.targets) == 1
                and isinstance(n.targets[0], ast.Attribute)
                and n.targets[0].attr == "size"
                and isinstance(n.targets[0].value, ast.Name)
                and n.targets[0].value.id in params
                and isinstance(n.value, ast.Constant)
                and n.value.value == 0
            ):
                out.append((fi, linear(fi.node).of(n), n.targets[0].value.id))
    return out


def check_site(ctx: Ctx, what: str, fi, site, x, matcher, kinds, why: str):
    repo = ctx.repo
    trace: List[str] = []
    eff = must_effect(repo, fi, x, matcher, kinds, before=site, trace=trace)
    sg = site_guard(repo, fi, site, x, kinds)
    sg = expand_definitions(repo, fi, sg)
    eff = expand_definitions(repo, fi, eff)
    construct = f"{what} for {x} before `{src(site.node)}`"
    if eff == FALSE:
        ctx.fail(
            fi,
            site.node,
            construct,
            f"no statement on any path discharges: {why}",
        )
        return
    good = implies(sg, eff)
    ctx.check(
        good,
        fi,
        site.node,
        construct,
        f"{why}: happens only under {f_show(eff)} but the site is reached "
        f"under {f_show(sg)}",
        reason_ok="via " + "; ".join(trace[-3:]),
    )


# -- matchers ---------------------------------------------------------------

m_retarget = call_matcher("retarget_references", 0, "reference_cache")
m_fn = call_matcher("remove_function_block_aux", 1)


def m_ordering(fi: FuncInfo, g: GStmt, x: str) -> bool:
    for c in linear(fi.node).stmt_calls(g):
        f = c.func
        if (
            isinstance(f, ast.Attribute)
            and f.attr == "remove_block"
            and "block_ordering" in src(f.value)
            and c.args
            and src(c.args[0]) == x
        ):
            return True
    return False


def _edge_loop(fi: FuncInfo, g: GStmt, x: str, attr: str, kw: str) -> bool:
    """
    `for e in <X.attr>` (possibly through set()/tuple() or a local alias)
    whose body acts on every e unconditionally: update_edge(e, .., kw=..) or
    <cfg>.discard(e).
    """
    n = g.node
    if not isinstance(n, (ast.For, ast.AsyncFor)) or not isinstance(n.target, ast.Name):
        return False
    it = n.iter
    while isinstance(it, ast.Call) and isinstance(it.func, ast.Name) and it.func.id in (
        "set",
        "tuple",
        "list",
        "frozenset",
    ) and len(it.args) == 1:
        it = it.args[0]
    if isinstance(it, ast.Name):
        from ..astx import single_assign_value

        v = single_assign_value(fi.node, it.id)
        if v is None:
            return False
        it = v
        while isinstance(it, ast.Call) and isinstance(it.func, ast.Name) and it.func.id in (
            "set",
            "tuple",
            "list",
            "frozenset",
        ) and len(it.args) == 1:
            it = it.args[0]
    p = attr_path(it)
    if p != (x, attr):
        return False
    e = n.target.id
    lin = linear(fi.node)
    if not n.body:
        return False
    body_guard = lin.of(n.body[0]).guard
    for st in n.body:
        for sub in ast.walk(st):
            if not isinstance(sub, ast.Call):
                continue
            f = sub.func
            name = f.attr if isinstance(f, ast.Attribute) else getattr(f, "id", "")
            acts = False
            if name == "update_edge" and sub.args and src(sub.args[0]) == e:
                if any(k.arg == kw for k in sub.keywords):
                    acts = True
            elif name == "discard" and len(sub.args) == 1 and src(sub.args[0]) == e:
                acts = True
            if acts:
                try:
                    gs = lin.of(sub)
                except AnalysisError:
                    continue
                if implies(body_guard, gs.guard):
                    return True
    return False


def m_in_edges(fi, g, x):
    return _edge_loop(fi, g, x, "incoming_edges", "target")


def m_out_edges(fi, g, x):
    return _edge_loop(fi, g, x, "outgoing_edges", "source")


def _table_entry_removed(repo: Repo, tables: List[str]):
    """`del T[X]` / `T.pop(X, ..)` with T bound from one of `tables`."""

    def m(fi: FuncInfo, g: GStmt, x: str) -> bool:
        n = g.node
        cands: List[Tuple[str, ast.expr]] = []
        if isinstance(n, ast.Delete):
            for t in n.targets:
                if isinstance(t, ast.Subscript) and isinstance(t.value, ast.Name):
                    cands.append((t.value.id, t.slice))
        for c in linear(fi.node).stmt_calls(g):
            f = c.func
            if (
                isinstance(f, ast.Attribute)
                and f.attr in ("pop", "discard")
                and isinstance(f.value, ast.Name)
                and c.args
            ):
                cands.append((f.value.id, c.args[0]))
        for name, key in cands:
            if src(key) != x:
                continue
            ts = aux.tables_bound_at(repo, fi, name, g)
            if ts and set(ts) & set(tables):
                # inside a loop over several tables: every member is handled
                return True
        return False

    return m


# -- rules ------------------------------------------------------------------


def _sites(ctx: Ctx):
    sites = retirement_sites(ctx.repo)
    if len(sites) < 2:
        raise AnalysisError(
            f"expected retirement sites in join_blocks and remove_block, found {len(sites)}"
        )
    return sites


@rule("RET.sym", ["C02", "C09"], "symbols of a retiring block are retargeted through the reference cache first", 2)
def ret_sym(ctx: Ctx):
    for fi, site, x in _sites(ctx):
        check_site(
            ctx, "RET.sym", fi, site, x, m_retarget, set(),
            "reference_cache.retarget_references(X, ...)",
        )


@rule("RET.in", ["C03", "C05"], "every incoming edge of a retiring block is moved or discarded first", 2)
def ret_in(ctx: Ctx):
    for fi, site, x in _sites(ctx):
        check_site(
            ctx, "RET.in", fi, site, x, m_in_edges, CODE_KINDS,
            "unfiltered loop over X.incoming_edges that moves or discards each edge",
        )


@rule("RET.out", ["C03", "C05"], "every outgoing edge of a retiring or emptied block is moved or discarded first", 3)
def ret_out(ctx: Ctx):
    for fi, site, x in _sites(ctx) + shrink_sites(ctx.repo):
        check_site(
            ctx, "RET.out", fi, site, x, m_out_edges, CODE_KINDS,
            "unfiltered loop over X.outgoing_edges that moves or discards each edge",
        )


@rule("RET.fn", ["C06", "C09"], "a retiring code block leaves functionBlocks and functions_by_block first", 2)
def ret_fn(ctx: Ctx):
    for fi, site, x in _sites(ctx):
        check_site(
            ctx, "RET.fn", fi, site, x, m_fn, CODE_KINDS,
            "remove_function_block_aux(cache, X)",
        )


@rule("RET.ord", ["C09"], "a retiring block is removed from the block ordering first", 2)
def ret_ord(ctx: Ctx):
    for fi, site, x in _sites(ctx):
        check_site(
            ctx, "RET.ord", fi, site, x, m_ordering, set(),
            "cache.block_ordering[...].remove_block(X)",
        )


@rule("RET.cfi", ["C08", "C05"], "CFI directives of a retiring block are re-homed or dropped first", 2)
def ret_cfi(ctx: Ctx):
    m = _table_entry_removed(ctx.repo, ["cfi_directives"])
    for fi, site, x in _sites(ctx):
        check_site(
            ctx, "RET.cfi", fi, site, x, m, CODE_KINDS | DATA_KINDS,
            "cfiDirectives entry of X deleted (after moving what must be kept)",
        )


@rule("RET.aln", ["C10", "C05"], "alignment entry of a retiring block is removed first", 2)
def ret_aln(ctx: Ctx):
    m = _table_entry_removed(ctx.repo, ["alignment"])
    for fi, site, x in _sites(ctx):
        check_site(
            ctx, "RET.aln", fi, site, x, m, set(),
            "alignment entry of X popped",
        )
